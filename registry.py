"""Harness registry: which harness modules are injected where, and what each harness encodes."""

FMT_STUBS = "std::fmt::format -> String::new(), snafu::backtrace_collection_enabled -> false (error messages outside the claim)"


def H(name, module, tier="quick", timeout=300, desc="", funcs=(), bounds="", replay="playback", mem=None):
    return {"name": name, "module": module, "tier": tier, "timeout": timeout, "desc": desc,
            "funcs": list(funcs), "bounds": bounds, "replay": replay, "mem": mem}


PROPS = {}

# Properties not (yet) claimed, with the reason recorded in MANIFEST.json.  An entry here is ignored as
# soon as the property has a claimed entry in PROPS.
_KANI = ("not decidable with solver-based checking of the real code in this sandbox: ")
NOT_APPLICABLE = {
    "C01": _KANI + "the round trip needs the message reader (PacketParser/MessageParser, PacketBodyReader, stream decryptors), all built on "
           "BytesMut and boxed readers. Message::from_bytes compiles under Kani only after the repr(u8) transformation and then exhausts "
           "goto-instrument's memory (16 GB); PacketBodyReader/StreamDecryptor/NormalizedReader harnesses with 1-7 symbolic octets ran out "
           "of 12-14 GB or 10-40 min (DESIGN.md 0.6). The writer side that was decidable (SEIPDv2 stream == RFC schedule, headers, "
           "length codecs) is claimed under C12/C17/C05 and the single decision steps of the stream decryptors under C03; neither is the round-trip property.",
    "C03": _KANI + "every clause is about the stream *decryptors* (aead::StreamDecryptor, sym::StreamDecryptorInner); both are BytesMut "
           "split_to/unsplit state machines for which CBMC returned no verdict even on a 33-octet stream with 3 symbolic octets "
           "(design-phase probes, repeated with the build-phase transformations). Only decryptor *construction* is decidable (claimed under C04).",
    "C08": _KANI + "lock/unlock runs S2K + CFB/AEAD over Bytes/BytesMut buffers; parsing a 26-octet locked secret-key body alone exceeded "
           "12 GB. What is decidable is claimed under C05: usage-octet preservation by the parser (c08_usage_*, 28 GB group; finding F3), the 16-bit checksum "
           "decision (c08_checksum_*) and unlock for usage 255 under modelled KDF/CFB/SHA-1 (c08_unlock_usage_255); the lock->serialise->parse->unlock "
           "round trip, wrong-password behaviour, AEAD (253) and SHA-1 (254: exhausts 45 GB) protection are not.",
    "C16": _KANI + "the cleartext framework is str-iterator code (split_inclusive, trim_end_matches, String building); a 3-octet "
           "dash_escape/unescape probe did not finish in 7 min (design phase) and Utf8/str kernels of 2 octets ran out of 14 GB in the build phase.",
    "C18": _KANI + "recipient handling lives in Message::decrypt*/TheRing::find_session_key, which need a parsed Message (see C01) and real "
           "public-key decryption. The pure kernels are checked elsewhere: PKESK recipient matching under C13 (c13_pkesk_match_*), plausibility of a decrypted v4 SKESK session key under C04 (c04_skesk_v4_plain_*).",
}
NOT_APPLICABLE["C07"] = ("requires symbolic execution of real public-key key generation and signing (RSA/ECC/EdDSA "
                         "arithmetic cannot be bit-blasted); with the primitives stubbed the remaining check would not be "
                         "the property. Its MPI/padding sub-mechanism is checked under C05.")

# ------------------------------------------------------------------------------------------------
HASHER = ["util::NormalizingHasher::new", "util::NormalizingHasher::hash_buf", "util::NormalizingHasher::done"]
NREADER = ["normalize_lines::NormalizedReader::{new,read,fill_buffer,cleanup_buffer}", "normalize_lines::replace_newlines", "util::fill_buffer"]
PROPS["C14"] = {
    "substitutions": [("src/normalize_lines.rs", "const BUF_SIZE: usize = 1024;", "const BUF_SIZE: usize = 8;")],
    "level_text": "Bounded model checking of the real canonicalisation code: for every chunk content within the stated "
                  "lengths and every reachable carry state, the SAT solver shows the streaming hasher's transcript equals a "
                  "byte-at-a-time reference transducer; one inductive step covers all chunkings.",
    "level_note": "Bounds: chunk lengths as listed in evidence; hash primitive = injective transcript model; Kani's std model "
                  "and CBMC are trusted; memchr SIMD paths not exercised. Of the streaming NormalizedReader only the end-of-source step is covered (c14_reader_step_0/fill_0); NOT covered: its data-carrying steps (whole-reader "
                  "harnesses on a reader scaled to a 4-octet buffer, and single cleanup_buffer/fill_buffer steps, all ran out of "
                  "14-45 GB in CBMC's array post-processing: two replace_newlines passes plus BytesMut appends at symbolic offsets; "
                  "probes kept unregistered in harness/c14_norm.rs) and inputs above the stated lengths.",
    "inject": [("src/lib.rs", "c14_hasher"), ("src/normalize_lines.rs", "c14_norm"), ("src/packet/literal_data.rs", "c14_lit"), ("src/util.rs", "c14_hstate")],
    "mem_gb": 14,
    "bounds": "hasher: one chunk of L<=4 (quick) / L<=6 (thorough) arbitrary bytes from pre-state in {fresh, "
              "after-CR}, plus two-chunk compositions",
    "outside": "memchr SIMD paths (Kani compiles the portable fallback); inputs longer than the stated bounds",
    "assumptions": ["hash primitive replaced by an injective transcript recorder (ideal hash)"],
    "harnesses": [
        H("c14_hasher_step_%d" % l, "c14_hasher", "quick" if l <= 4 else "thorough", 600,
          "pre-state x one chunk of %d symbolic bytes x done(): transcript == byte-at-a-time reference" % l,
          HASHER, "L=%d, all 256 byte values, unwind %d" % (l, max(3, l + 2)))
        for l in range(0, 7)
    ] + [
        H("c14_hasher_two_1_2", "c14_hasher", "quick", 600, "two chunks 1+2", HASHER, "L=3"),
        H("c14_hasher_two_2_1", "c14_hasher", "quick", 600, "two chunks 2+1", HASHER, "L=3"),
        H("c14_hasher_two_2_2", "c14_hasher", "thorough", 900, "two chunks 2+2", HASHER, "L=4"),
        H("c14_hasher_binary_3", "c14_hasher", "quick", 300, "binary mode identity", HASHER, "L=3"),
    ] + [
        H("c14_hasher_carry_%d" % l, "c14_hstate", "quick" if l in (1, 2) else "thorough", 600,
          "pre-state x one chunk of %d symbolic bytes: the carried flag afterwards is exactly 'last octet was CR' (closes the induction of the one-step harnesses)" % l,
          ["util::NormalizingHasher::{new,hash_buf}"], "L=%d" % l) for l in range(0, 4)
    ] + [
        H("c14_replace_%d" % l, "c14_norm", "quick" if l <= 2 else "thorough", 600 if l <= 2 else 1800,
          "replace_newlines(x, CRLF) == reference for every x of length %d" % l,
          ["normalize_lines::replace_newlines"], "L=%d" % l, mem=(28 if l == 5 else None)) for l in range(0, 6)
    ] + [
        H("c14_reader_step_0", "c14_norm", "quick", 300, "NormalizedReader::cleanup_buffer (buffer scaled to 4) on an EMPTY final read from an arbitrary stale buffer and arbitrary carried octet: emits exactly the pending CR, if any",
          ["normalize_lines::NormalizedReader::cleanup_buffer", "normalize_lines::replace_newlines"], "4 stale octets + carried octet symbolic; fill level 0 only (levels 1..4 out of reach, see level_note)"),
        H("c14_reader_fill_0", "c14_norm", "quick", 300, "real NormalizedReader::fill_buffer at end of source from an arbitrary previous buffer: is_done set, nothing consumed, pending CR (last slot of previous buffer) flushed",
          ["normalize_lines::NormalizedReader::{fill_buffer,cleanup_buffer}", "util::fill_buffer"], "previous buffer 4 symbolic octets, empty source"),
    ] + [
        H("c14_crlf_%d_%d" % ab, "c14_lit", "quick" if sum(ab) <= 4 else "thorough", 600,
          "CrLfCheckReader over chunks of %d+%d symbolic bytes: accepts iff no bare LF, data unchanged" % ab,
          ["packet::literal_data::CrLfCheckReader::{new,read}"], "chunks %d+%d" % ab)
        for ab in [(1, 1), (2, 1), (1, 2), (2, 2), (3, 2), (4, 0)]
    ],
}

# ------------------------------------------------------------------------------------------------
CODEC = ["types::PacketLength::{try_from_reader,to_writer_new,fixed_encoding_len}",
         "packet::PacketHeader::{try_from_reader,from_parts,to_writer,write_len,tag,packet_length}",
         "types::PacketHeaderVersion::{write_header,header_len}", "types::Tag::{from,into}"]
C17_CODEC = [
    H("c17_len_fixed_roundtrip", "c17_codec", "quick", 600, "every u32 length: writer == RFC 4.2.1 reference, size query, parse inverts", CODEC, "len: full u32"),
    H("c17_len_partial_roundtrip", "c17_codec", "quick", 300, "Partial(2^e), e in 0..=30", CODEC, "e: 0..=30"),
    H("c17_len_parse_total", "c17_codec", "quick", 600, "every 5-octet string: parser == RFC decoder incl. octets consumed", CODEC, "5 arbitrary octets"),
    H("c17_len_parse_truncated", "c17_codec", "quick", 600, "truncated length field => error", CODEC, "5 arbitrary octets cut at 0..4"),
    H("c17_header_new_roundtrip", "c17_codec", "quick", 900, "new-format header for every tag<64 and u32 length vs reference", CODEC, "tag 0..63, len full u32"),
    H("c17_header_old_roundtrip", "c17_codec", "quick", 900, "legacy header for every tag<16 and u32 length vs reference", CODEC, "tag 0..15, len full u32"),
    H("c17_header_parse_total", "c17_codec", "quick", 900, "every 6-octet string: header parser == RFC decoder; reserialise/parse; canonical identity", CODEC, "6 arbitrary octets"),
    H("c17_header_from_parts_rules", "c17_codec", "quick", 600, "illegal header/length combinations refused", CODEC, "tag 0..63, value full u32"),
    H("c17_maybe_len", "c17_codec", "quick", 300, "PacketLength::maybe_len for every value", CODEC, "full u32"),
]
RD_F = ["composed::message::reader::PacketBodyReader::{new,read,fill_inner,into_inner}", "composed::message::reader::LimitedReader", "util::fill_buffer_bytes", "types::PacketLength::try_from_reader"]
C17_READER = [
    H("c17_reader_illegal_first", "c17_reader", "quick", 900, "scaled build: partial first chunk 2^e, e<=3, every tag<64: accepted iff data tag and size >= minimum", RD_F, "tag and exponent symbolic"),
]
PROPS["C17"] = {
    "substitutions": [("src/composed/message/reader/packet_body.rs", "const BUFFER_SIZE: usize = 8 * 1024;", "const BUFFER_SIZE: usize = 8;"),
                      ("src/composed/message/reader/packet_body.rs", "len < 512", "len < 4")],
    "inject": [("src/lib.rs", "c17_codec"), ("src/composed/message/reader/packet_body.rs", "c17_reader")],
    "mem_gb": 10,
    "level_text": "Bounded model checking of the real framing code: header/length codecs are decided for every u32 length, "
                  "every tag and both formats against an independent RFC 9580 4.2 encoder/decoder.",
    "level_note": "Codecs: no bound beyond the types. Error-message formatting stubbed. Kani/CBMC trusted.",
    "bounds": "codecs: full u32 lengths, tags 0..63, both header formats",
    "outside": "see DESIGN.md C17",
    "assumptions": [FMT_STUBS, "c17_reader_*: checked in a scaled copy (PacketBodyReader BUFFER_SIZE 8 KiB -> 8; first-partial-chunk minimum 512 -> 4); the framing state machine is unchanged"],
    "harnesses": list(C17_CODEC) + C17_READER,
}

# ------------------------------------------------------------------------------------------------
SIGN_FUNCS = ["packet::SignatureConfig::{sign,into_hasher,hash_signature_data,trailer,sign_key,sign_subkey_binding,"
              "sign_primary_key_binding,sign_certification_third_party}", "packet::signature::config::SignatureHasher::sign",
              "packet::signature::types::serialize_for_hashing", "packet::Subpacket::to_writer", "util::NormalizingHasher",
              "packet::Signature::{from_config,verify,verify_key_third_party,verify_subkey_binding,verify_primary_key_binding,"
              "verify_third_party_certification}", "normalize_lines::NormalizedReader"]
SIG_ASSUME = ["hash primitive replaced by an injective transcript recorder via kani::stub(HashAlgorithm::new_hasher) (ideal hash)",
              "public-key primitive replaced by a mock SigningKey/VerifyingKey: sign returns the digest, verify accepts iff "
              "digest == signature bytes (ideal signature)", FMT_STUBS]
C11_H = [
    H("c11_fields_v4", "c11_sig", "quick", 600, "hash_signature_data + trailer, v4: every type/pk octet, creation time + Other subpacket (critical bit symbolic => refused)", SIGN_FUNCS, "hashed area 10 bytes"),
    H("c11_fields_v4_exp", "c11_sig", "quick", 600, "as c11_fields_v4 with an Experimental (100..110) subpacket, critical bit allowed", SIGN_FUNCS, "hashed area 10 bytes"),
    H("c11_fields_v6", "c11_sig", "quick", 600, "hash_signature_data + trailer, v6 (u32 hashed length)", SIGN_FUNCS, "hashed area 10 bytes"),
    H("c11_verify_v3_2", "c11_sig", "quick", 600, "v3 signature over RFC transcript (doc||type||time) accepted by verify", SIGN_FUNCS, "doc 2 bytes"),
    H("c11_sign_data_v4_2_bin", "c11_sig", "quick", 900, "v4 Binary data signature over 2 symbolic bytes: digest handed to key == RFC 5.2.4 transcript; signed hash value = prefix", SIGN_FUNCS, "doc 2 bytes, hashed area 10 bytes"),
    H("c11_sign_data_v4_2_text", "c11_sig", "quick", 900, "v4 Text data signature over 2 symbolic bytes (canonicalised): digest handed to key == RFC 5.2.4 transcript; signed hash value = prefix", SIGN_FUNCS, "doc 2 bytes, hashed area 10 bytes"),
    H("c11_sign_data_v4_2_exp", "c11_sig", "thorough", 900, "as above, Experimental subpacket with symbolic critical bit", SIGN_FUNCS, "see desc"),
    H("c11_sign_data_v6_2_text", "c11_sig", "quick", 900, "v6 salted Text data signature, sign side", SIGN_FUNCS, "doc 2 bytes, 16-byte salt (2 symbolic)"),
    H("c11_sign_data_v6_2_bin", "c11_sig", "thorough", 900, "v6 salted Binary data signature, sign side", SIGN_FUNCS, "doc 2 bytes, 16-byte salt (2 symbolic)"),
    H("c11_sign_data_v4_3", "c11_sig", "thorough", 900, "v4 data signature over 3 symbolic bytes", SIGN_FUNCS, "see desc"),
    H("c11_verify_data_v4_2", "c11_sig", "quick", 900, "v4 binary data signature carrying the RFC digest is accepted by Signature::verify", SIGN_FUNCS, "see desc"),
    H("c11_verify_data_v6_2", "c11_sig", "thorough", 900, "v6 binary data signature, verify side", SIGN_FUNCS, "see desc"),
    H("c11_sign_key_v4", "c11_sig", "thorough", 900, "direct-key/key-revocation v4 signer over v4|v6 signee: 0x99/0x9B framing, sign side", SIGN_FUNCS, "key bodies 3+5 bytes"),
    H("c11_verify_key_v4", "c11_sig", "thorough", 900, "direct-key/key-revocation v4, verify side", SIGN_FUNCS, "key bodies 3+5 bytes"),
    H("c11_sign_subkey_binding_v4", "c11_sig", "quick", 900, "0x18 v4 sign side: primary then subkey framing", SIGN_FUNCS, "key bodies 3+4 bytes"),
    H("c11_verify_subkey_binding_v4", "c11_sig", "thorough", 900, "0x18 v4 verify side", SIGN_FUNCS, "key bodies 3+4 bytes"),
    H("c11_sign_primary_binding_v4", "c11_sig", "thorough", 900, "0x19 v4 sign side (signer = subkey)", SIGN_FUNCS, "key bodies 3+4 bytes"),
    H("c11_verify_primary_binding_v4", "c11_sig", "quick", 900, "0x19 v4 verify side", SIGN_FUNCS, "key bodies 3+4 bytes"),
    H("c11_sign_key_v6", "c11_sig", "thorough", 900, "direct-key/key-revocation v6 signer over v4|v6 signee: 0x99/0x9B framing, sign side", SIGN_FUNCS, "key bodies 3+5 bytes"),
    H("c11_verify_key_v6", "c11_sig", "quick", 900, "direct-key/key-revocation v6, verify side", SIGN_FUNCS, "key bodies 3+5 bytes"),
    H("c11_sign_subkey_binding_v6", "c11_sig", "thorough", 900, "0x18 v6 sign side: primary then subkey framing", SIGN_FUNCS, "key bodies 3+4 bytes"),
    H("c11_verify_subkey_binding_v6", "c11_sig", "quick", 900, "0x18 v6 verify side", SIGN_FUNCS, "key bodies 3+4 bytes"),
    H("c11_sign_primary_binding_v6", "c11_sig", "quick", 900, "0x19 v6 sign side (signer = subkey)", SIGN_FUNCS, "key bodies 3+4 bytes"),
    H("c11_verify_primary_binding_v6", "c11_sig", "thorough", 900, "0x19 v6 verify side", SIGN_FUNCS, "key bodies 3+4 bytes"),
    H("c11_sign_cert_v4_generic", "c11_sig", "thorough", 900, "certification sign_cert_v4_generic over user id | attribute (0xB4|0xD1 len32)", SIGN_FUNCS, "key bodies 3 bytes, id body 3 bytes"),
    H("c11_sign_cert_v4_positive", "c11_sig", "quick", 900, "certification sign_cert_v4_positive over user id | attribute (0xB4|0xD1 len32)", SIGN_FUNCS, "key bodies 3 bytes, id body 3 bytes"),
    H("c11_sign_cert_v4_revocation", "c11_sig", "thorough", 900, "certification sign_cert_v4_revocation over user id | attribute (0xB4|0xD1 len32)", SIGN_FUNCS, "key bodies 3 bytes, id body 3 bytes"),
    H("c11_sign_cert_v6_positive", "c11_sig", "thorough", 900, "certification sign_cert_v6_positive over user id | attribute (0xB4|0xD1 len32)", SIGN_FUNCS, "key bodies 3 bytes, id body 3 bytes"),
    H("c11_sign_cert_v6_persona", "c11_sig", "thorough", 900, "certification sign_cert_v6_persona over user id | attribute (0xB4|0xD1 len32)", SIGN_FUNCS, "key bodies 3 bytes, id body 3 bytes"),
    H("c11_sign_cert_v4_casual", "c11_sig", "thorough", 900, "certification sign_cert_v4_casual over user id | attribute (0xB4|0xD1 len32)", SIGN_FUNCS, "key bodies 3 bytes, id body 3 bytes"),
    H("c11_verify_cert_v4_positive", "c11_sig", "quick", 900, "certification verify_cert_v4_positive over user id | attribute (0xB4|0xD1 len32)", SIGN_FUNCS, "key bodies 3 bytes, id body 3 bytes"),
    H("c11_verify_cert_v6_generic", "c11_sig", "thorough", 900, "certification verify_cert_v6_generic over user id | attribute (0xB4|0xD1 len32)", SIGN_FUNCS, "key bodies 3 bytes, id body 3 bytes"),
    H("c11_verify_cert_v4_revocation", "c11_sig", "thorough", 900, "certification verify_cert_v4_revocation over user id | attribute (0xB4|0xD1 len32)", SIGN_FUNCS, "key bodies 3 bytes, id body 3 bytes"),
]
C11_H += [
    H("c11_sp_%s" % n, "c11_sig", tier, 900, "hashed area = creation time + %s subpacket (critical bit and body symbolic): hashed bytes == RFC 5.2.3 wire form" % n, SIGN_FUNCS, "one known subpacket kind")
    for n, tier in [("sig_expiration", "thorough"), ("key_expiration", "thorough"), ("issuer_keyid", "quick"), ("exportable", "thorough"), ("revocable", "thorough"),
                    ("primary_uid", "thorough"), ("trust", "thorough"), ("issuer_fpr_v4", "quick"), ("issuer_fpr_v6", "thorough")]
]
PROPS["C11"] = {
    "inject": [("src/packet/signature/types.rs", "c11_sig")],
    "mem_gb": 14,
    "level_text": "Bounded model checking of the real signing/verifying code with the hash and public-key primitives replaced by "
                  "ideal models: for every value of the symbolic fields the digest handed to the key equals the RFC 9580 5.2.4 "
                  "transcript built by an independent reference.",
    "level_note": "Bounds: documents <= 3 bytes, key bodies <= 5 bytes, hashed area 10 bytes (2 subpackets), SHA-256 id, salt 16 bytes. "
                  "Ideal hash + ideal signature models; real key serialisation is C05's subject.",
    "bounds": "documents 2-3 bytes; key bodies 3-5 bytes; hashed area 10 bytes; all pk-alg octets; sig types 0x00,0x01,0x10-0x13,0x18,0x19,0x1F,0x20,0x30; v3(verify),v4,v6",
    "outside": "64 KiB hashed areas; real RSA/ECC key bodies; hash algorithms other than id 8 as data (the id octet itself is covered by C02)",
    "assumptions": SIG_ASSUME,
    "harnesses": C11_H,
}

# ------------------------------------------------------------------------------------------------
C05_CODEC = [
    H("c05_subpacket_len_parse_total", "c05_codec", "quick", 600, "every 5-octet string: SubpacketLength parser == RFC decoder, re-serialises identically, write_len", ["packet::SubpacketLength::{try_from_reader,to_writer,write_len,len}"], "5 arbitrary octets"),
    H("c05_subpacket_len_encode", "c05_codec", "quick", 600, "every u32: encode is minimal RFC class, roundtrips", ["packet::SubpacketLength::{encode,to_writer,try_from_reader}"], "full u32"),
    H("c05_s2k_simple", "c05_codec", "quick", 600, "S2K specifier type 0, 2 octets, remaining octets arbitrary: parse/serialise inverse, write_len, all-or-error", ["types::StringToKey::{try_from_reader,to_writer,write_len,id}", "parsing_reader::BufReadParsing::{read_arr,rest}"], "type 0, 2 octets"),
    H("c05_s2k_simple_trunc", "c05_codec", "thorough", 600, "S2K specifier type 0 truncated, remaining octets arbitrary: parse/serialise inverse, write_len, all-or-error", ["types::StringToKey::{try_from_reader,to_writer,write_len,id}", "parsing_reader::BufReadParsing::{read_arr,rest}"], "type 0 truncated"),
    H("c05_s2k_salted", "c05_codec", "thorough", 600, "S2K specifier type 1, 10 octets, remaining octets arbitrary: parse/serialise inverse, write_len, all-or-error", ["types::StringToKey::{try_from_reader,to_writer,write_len,id}", "parsing_reader::BufReadParsing::{read_arr,rest}"], "type 1, 10 octets"),
    H("c05_s2k_salted_trunc", "c05_codec", "quick", 600, "S2K specifier type 1 truncated to 9, remaining octets arbitrary: parse/serialise inverse, write_len, all-or-error", ["types::StringToKey::{try_from_reader,to_writer,write_len,id}", "parsing_reader::BufReadParsing::{read_arr,rest}"], "type 1 truncated to 9"),
    H("c05_s2k_iterated", "c05_codec", "quick", 600, "S2K specifier type 3, 11 octets, remaining octets arbitrary: parse/serialise inverse, write_len, all-or-error", ["types::StringToKey::{try_from_reader,to_writer,write_len,id}", "parsing_reader::BufReadParsing::{read_arr,rest}"], "type 3, 11 octets"),
    H("c05_s2k_iterated_trunc", "c05_codec", "thorough", 600, "S2K specifier type 3 truncated to 10, remaining octets arbitrary: parse/serialise inverse, write_len, all-or-error", ["types::StringToKey::{try_from_reader,to_writer,write_len,id}", "parsing_reader::BufReadParsing::{read_arr,rest}"], "type 3 truncated to 10"),
    H("c05_s2k_argon2", "c05_codec", "quick", 600, "S2K specifier type 4, 20 octets, remaining octets arbitrary: parse/serialise inverse, write_len, all-or-error", ["types::StringToKey::{try_from_reader,to_writer,write_len,id}", "parsing_reader::BufReadParsing::{read_arr,rest}"], "type 4, 20 octets"),
    H("c05_s2k_argon2_trunc", "c05_codec", "thorough", 600, "S2K specifier type 4 truncated to 19, remaining octets arbitrary: parse/serialise inverse, write_len, all-or-error", ["types::StringToKey::{try_from_reader,to_writer,write_len,id}", "parsing_reader::BufReadParsing::{read_arr,rest}"], "type 4 truncated to 19"),
    H("c05_s2k_reserved", "c05_codec", "thorough", 600, "S2K specifier type 2 + 3 octets, remaining octets arbitrary: parse/serialise inverse, write_len, all-or-error", ["types::StringToKey::{try_from_reader,to_writer,write_len,id}", "parsing_reader::BufReadParsing::{read_arr,rest}"], "type 2 + 3 octets"),
    H("c05_s2k_private_100", "c05_codec", "quick", 600, "S2K specifier type 100, remaining octets arbitrary: parse/serialise inverse, write_len, all-or-error", ["types::StringToKey::{try_from_reader,to_writer,write_len,id}", "parsing_reader::BufReadParsing::{read_arr,rest}"], "type 100"),
    H("c05_s2k_private_110", "c05_codec", "thorough", 600, "S2K specifier type 110, remaining octets arbitrary: parse/serialise inverse, write_len, all-or-error", ["types::StringToKey::{try_from_reader,to_writer,write_len,id}", "parsing_reader::BufReadParsing::{read_arr,rest}"], "type 110"),
    H("c05_s2k_other_111", "c05_codec", "thorough", 600, "S2K specifier type 111, remaining octets arbitrary: parse/serialise inverse, write_len, all-or-error", ["types::StringToKey::{try_from_reader,to_writer,write_len,id}", "parsing_reader::BufReadParsing::{read_arr,rest}"], "type 111"),
    H("c05_s2k_other_5", "c05_codec", "thorough", 600, "S2K specifier type 5, remaining octets arbitrary: parse/serialise inverse, write_len, all-or-error", ["types::StringToKey::{try_from_reader,to_writer,write_len,id}", "parsing_reader::BufReadParsing::{read_arr,rest}"], "type 5"),
    H("c05_s2k_other_255", "c05_codec", "quick", 600, "S2K specifier type 255, remaining octets arbitrary: parse/serialise inverse, write_len, all-or-error", ["types::StringToKey::{try_from_reader,to_writer,write_len,id}", "parsing_reader::BufReadParsing::{read_arr,rest}"], "type 255"),
    H("c05_mpi_bits0", "c05_codec", "quick", 600, "MPI declared 0 bits, magnitude arbitrary: strip leading zeros, exact bit count, canonical identity", ["types::Mpi::{try_from_reader,to_writer,write_len}", "parsing_reader::BufReadParsing::take_bytes"], "0 bits"),
    H("c05_mpi_bits1", "c05_codec", "thorough", 600, "MPI declared 1 bit, magnitude arbitrary: strip leading zeros, exact bit count, canonical identity", ["types::Mpi::{try_from_reader,to_writer,write_len}", "parsing_reader::BufReadParsing::take_bytes"], "1 bit"),
    H("c05_mpi_bits8", "c05_codec", "thorough", 600, "MPI declared 8 bits, magnitude arbitrary: strip leading zeros, exact bit count, canonical identity", ["types::Mpi::{try_from_reader,to_writer,write_len}", "parsing_reader::BufReadParsing::take_bytes"], "8 bits"),
    H("c05_mpi_bits9", "c05_codec", "quick", 600, "MPI declared 9 bits, magnitude arbitrary: strip leading zeros, exact bit count, canonical identity", ["types::Mpi::{try_from_reader,to_writer,write_len}", "parsing_reader::BufReadParsing::take_bytes"], "9 bits"),
    H("c05_mpi_bits16", "c05_codec", "quick", 600, "MPI declared 16 bits, magnitude arbitrary: strip leading zeros, exact bit count, canonical identity", ["types::Mpi::{try_from_reader,to_writer,write_len}", "parsing_reader::BufReadParsing::take_bytes"], "16 bits"),
    H("c05_mpi_bits17", "c05_codec", "thorough", 600, "MPI declared 17 bits, magnitude arbitrary: strip leading zeros, exact bit count, canonical identity", ["types::Mpi::{try_from_reader,to_writer,write_len}", "parsing_reader::BufReadParsing::take_bytes"], "17 bits"),
    H("c05_mpi_bits17_trunc", "c05_codec", "quick", 600, "MPI declared 17 bits, truncated, magnitude arbitrary: strip leading zeros, exact bit count, canonical identity", ["types::Mpi::{try_from_reader,to_writer,write_len}", "parsing_reader::BufReadParsing::take_bytes"], "17 bits, truncated"),
    H("c05_mpi_bits32", "c05_codec", "thorough", 600, "MPI declared 32 bits, magnitude arbitrary: strip leading zeros, exact bit count, canonical identity", ["types::Mpi::{try_from_reader,to_writer,write_len}", "parsing_reader::BufReadParsing::take_bytes"], "32 bits"),
    H("c05_mpi_bits16385", "c05_codec", "quick", 600, "MPI declared 16385 bits (over the 16384 cap), magnitude arbitrary: strip leading zeros, exact bit count, canonical identity", ["types::Mpi::{try_from_reader,to_writer,write_len}", "parsing_reader::BufReadParsing::take_bytes"], "16385 bits (over the 16384 cap)"),
]
SEC_F = ["types::SecretParams::{from_slice,to_writer,write_len,string_to_key_id,has_sha1_checksum}", "types::params::secret::parse_secret_fields", "types::EncryptedSecretParams::{new,to_writer,write_len}"]
C05_MUT = [
    H("c08_usage_255", "c08_secret", "thorough", 1500, "locked secret key material with S2K usage octet 255 (AES128, simple S2K): parser keeps the usage octet, selects the 16-bit checksum (not SHA-1)", SEC_F[:2], "4 concrete header octets + 22 symbolic octets (iv, data)", mem=28),
    H("c08_usage_254", "c08_secret", "thorough", 1500, "same with usage octet 254: octet kept, SHA-1 check selected", SEC_F[:2], "4 concrete header octets + 22 symbolic octets", mem=28),
] + [
    H("c05_literal_header_%s" % n, "c05_lit", tier, 600, "literal data header (%s): parse + serialise is the identity on the wire octets, write_len truthful, exactly the header consumed" % what,
      ["packet::LiteralDataHeader::{try_from_reader,to_writer,write_len}"], "name and date octets symbolic")
    for n, tier, what in [("b_0", "quick", "mode b, empty name"), ("u_2", "quick", "mode u, 2-octet name"), ("t_2", "thorough", "mode t, 2-octet name"), ("other_2", "quick", "unknown mode 0x01, 2-octet name")]
] + [
    H("c05_literal_header_trunc_%d" % n, "c05_lit", tier, 600, "literal data header truncated to %d octets: error" % n, ["packet::LiteralDataHeader::try_from_reader"], "6 symbolic octets")
    for n, tier in [(3, "thorough"), (7, "quick")]
] + [
    H("c08_checksum_decision", "c08_checksum", "quick", 900, "PlainSecretParams::try_from_reader (v4, X25519) on 32 arbitrary secret octets + 2 arbitrary checksum octets: accepted iff checksum == sum of the octets mod 65536 (real arithmetic)", ["types::PlainSecretParams::{try_from_reader,compare_checksum_simple}", "crypto::checksum::SimpleChecksum"], "34 symbolic octets"),
    H("c08_unlock_usage_255", "c08_unlock", "thorough", 1500, "EncryptedSecretParams::unlock for S2K usage 255 (KDF, CFB, SHA-1 compression modelled): accepted iff the 16-bit sum matches; the unlocked X25519 octets are the protected octets", ["types::EncryptedSecretParams::unlock (MalleableCfb arm)", "types::PlainSecretParams::try_from_reader"], "34 symbolic octets", mem=24),
    H("c08_checksum_trailing", "c08_checksum", "thorough", 900, "same with one trailing octet: refused", ["types::PlainSecretParams::try_from_reader"], "35 symbolic octets"),
    H("c05_details_write_len", "c05_sigmut", "quick", 900, "SignedKeyDetails with one direct-key signature: write_len == octets written (tag + length + body)", ["composed::SignedKeyDetails::{to_writer,write_len}", "packet::Signature::{to_writer,write_len}", "packet::PacketTrait::{to_writer_with_header,write_len_with_header}"], "creation time symbolic"),
    H("c05_keyflags_setters", "c05_sigmut", "quick", 600, "KeyFlags built through every subset of setters: write_len == octets written, RFC bit positions", ["packet::KeyFlags::{default,set_*,to_writer,write_len}"], "10 symbolic booleans"),
    H("c05_unhashed_push_remove_small", "c05_sigmut", "quick", 900, "Signature::unhashed_subpacket_push/remove with a 1-octet-length subpacket: header length == original", ["packet::Signature::{unhashed_subpacket_push,unhashed_subpacket_insert,unhashed_subpacket_remove}", "packet::Subpacket::write_len"], "original header length 10..70000 symbolic"),
    H("c05_unhashed_push_remove_2octet_len", "c05_sigmut", "quick", 900, "same with a 196-octet subpacket (2-octet subpacket length)", ["packet::Signature::{unhashed_subpacket_push,unhashed_subpacket_insert,unhashed_subpacket_remove}", "packet::Subpacket::write_len"], "original header length symbolic"),
]
PROPS["C05"] = {
    "inject": [("src/lib.rs", "c05_codec"), ("src/lib.rs", "c17_codec"), ("src/packet/signature/types.rs", "c05_sigmut"), ("src/lib.rs", "c08_secret"), ("src/lib.rs", "c08_checksum"), ("src/lib.rs", "c08_unlock"), ("src/lib.rs", "c05_lit")],
    "mem_gb": 12,
    "level_text": "Bounded model checking of the real parsers/serialisers: for every byte string of the stated lengths the solver "
                  "shows parse/serialise are mutually inverse, write_len equals the octets written and canonical inputs "
                  "re-serialise identically, against independent RFC 9580 decoders.",
    "level_note": "Bounds per harness (byte-string lengths) in evidence; MPIs <= 32 bits; packet-level objects as listed. "
                  "Logging/error formatting stubbed. Kani/CBMC trusted.",
    "bounds": "length codecs: full width; S2K specifiers: type octet in {0,1,2,3,4,5,100,110,111,255} x complete/truncated, other octets arbitrary; MPIs: declared bits in {0,1,8,9,16,17,32,16385}, magnitude arbitrary",
    "outside": "RSA/DSA/ECC parameter validation; 64 KiB subpacket areas; composite certificates beyond the listed harnesses",
    "assumptions": [FMT_STUBS],
    "harnesses": C05_CODEC + C05_MUT + [dict(h, tier="thorough") if h["name"] not in ("c17_header_new_roundtrip", "c17_header_old_roundtrip", "c17_maybe_len") else h for h in C17_CODEC],
}

# ------------------------------------------------------------------------------------------------
PROPS["C15"] = {
    "claimed": False,
    "inject": [("src/lib.rs", "c15_msg")],
    "mem_gb": 16,
    "level_text": "", "level_note": "", "bounds": "", "outside": "", "assumptions": [FMT_STUBS],
    "harnesses": [
        H("c15_esk_skesk_seipd1", "c15_msg", "quick", 900, "SKESK(version symbolic) + SEIPDv1 header through Message::from_bytes: kept iff v4", ["composed::Message::from_bytes", "composed::message::parser::{MessageParser::run,visit_esk,esk_filter}", "packet::PacketParser"], "13-byte message, 1 symbolic octet"),
    ],
}

# ------------------------------------------------------------------------------------------------
IO_F = ["util::fill_buffer", "util::fill_buffer_bytes", "parsing_reader::BufReadParsing::{read_arr,take_bytes}"]
CFB_F = ["crypto::sym::encryptor::StreamEncryptorInner::<Aes128,&[u8]>::{read,fill_inner}", "util::fill_buffer"]
PROPS["C09"] = {
    "substitutions": [("src/crypto/sym/encryptor.rs", "        8 * 1024\n", "        8\n")],
    "inject": [("src/lib.rs", "c09_io"), ("src/crypto/sym/encryptor.rs", "c09_cfb")],
    "mem_gb": 12,
    "level_text": "Bounded model checking of the real buffer-filling primitives under a source model whose read sizes and fault "
                  "point are symbolic: the solver shows the result is the same for every fragmentation and that a source error "
                  "always surfaces as an error.",
    "level_note": "Bounds: data <= 5 bytes, <= 3 symbolic short reads then unrestricted, single fault. Higher streaming layers "
                  "(generators, decryptors) are covered only as far as listed in evidence.",
    "bounds": "data <= 5 bytes; read schedule = 3 symbolic cut sizes in 1..8; fault at call 0..3",
    "outside": "adversarial schedules on long inputs; multiple faults; std::io::copy Interrupted retry; full message reader",
    "assumptions": [FMT_STUBS, "source model: BufRead/Read over a slice with symbolic per-call window", "c09_cfb_*: sha1::compress::compress and cfb_mode::BufEncryptor::encrypt are no-ops (ciphertext = plaintext; the state machine does not depend on them); AES-128 key schedule real on a fixed key; consumer buffer length concrete per instance; the encryptor's internal buffer_size() scaled 8 KiB -> 8 octets in the checked copy"],
    "harnesses": [
        H("c09_fill_buffer_5_4", "c09_io", "quick", 600, "fill_buffer: 5 bytes of data into a 4-byte buffer under every 3-cut schedule", IO_F, "D=5,N=4"),
        H("c09_fill_buffer_3_4", "c09_io", "quick", 600, "fill_buffer: source shorter than buffer", IO_F, "D=3,N=4"),
        H("c09_fill_buffer_4_4", "c09_io", "thorough", 600, "fill_buffer: exact fit", IO_F, "D=4,N=4"),
        H("c09_fill_buffer_fault", "c09_io", "quick", 900, "fill_buffer: source error at symbolic call => Err iff reached", IO_F, "D=5,N=4, fault at 0..3"),
        H("c09_fill_bytes_5_4", "c09_io", "quick", 900, "fill_buffer_bytes over BufRead, D=5 N=4", IO_F, "D=5,N=4"),
        H("c09_fill_bytes_3_4", "c09_io", "thorough", 900, "fill_buffer_bytes, short source", IO_F, "D=3,N=4"),
        H("c09_read_arr_4", "c09_io", "quick", 600, "read_arr::<4> on 0..5 bytes under every schedule: all-or-error", IO_F, "<=5 bytes"),
        H("c09_take_bytes_3", "c09_io", "quick", 900, "take_bytes(3) on 0..4 bytes under every schedule: all-or-error", IO_F, "<=4 bytes"),
    ] + [
        H("c09_cfb_enc_after_prefix_0_b1", "c09_cfb", "quick", 900, "SEIPDv1 stream encryptor, prefix consumed, EMPTY source, consumer buffer 1: read() returns Ok(0) only at end of stream (found F6); concrete instance, the solver's part is reachability of the assertion", CFB_F, "source 0 octets; consumer buffer 1"),
        H("c09_cfb_enc_after_prefix_0_b4", "c09_cfb", "thorough", 900, "same, consumer buffer 4", CFB_F, "source 0 octets; consumer buffer 4"),
        H("c09_cfb_enc_after_data_b1", "c09_cfb", "thorough", 900, "last data chunk consumed, source exhausted: next read() delivers MDC octets (22 in total); consumer buffer 1", CFB_F, "consumer buffer 1"),
        H("c09_cfb_enc_after_data_b4", "c09_cfb", "quick", 900, "same, consumer buffer 4", CFB_F, "consumer buffer 4"),
        H("c09_cfb_enc_after_mdc", "c09_cfb", "quick", 300, "MDC consumed: read() returns Ok(0), state Done, and stays there", CFB_F, "consumer buffer 1..4"),
    ],
}



# ------------------------------------------------------------------------------------------------
PROPS["C04"] = {
    "inject": [("src/lib.rs", "c04_aead")],
    "mem_gb": 14,
    "level_text": "Bounded model checking for absence of panics (index, slice, arithmetic overflow, unwrap/expect, unreachable) and "
                  "bounded termination (unwinding assertions) of the real parsing / post-decryption code on attacker-chosen octets.",
    "level_note": "Each harness fixes the input length and leaves the octets symbolic; primitives run on concrete keys. Error formatting "
                  "and logging are no-ops. Whole-message parsing through Message::from_bytes exceeds goto-instrument's memory and is outside.",
    "bounds": "per harness, see evidence",
    "outside": "stack depth of nested containers; inputs longer than the harness lengths; panics inside Debug formatting; the primitives",
    "assumptions": [FMT_STUBS],
    "harnesses": [
        H("c04_seipdv2_aead0", "c04_aead", "quick", 600, "StreamDecryptor::new_rfc9580 with AEAD octet 0, every chunk-size octet, key of matching length: Ok/Err, no panic",
          ["crypto::aead::StreamDecryptor::new_rfc9580", "crypto::aead::aead_setup_rfc9580", "crypto::aead::AeadAlgorithm::{nonce_size,tag_size}"], "AEAD octet 0, chunk octet symbolic"),
        H("c04_seipdv2_aead1", "c04_aead", "thorough", 600, "StreamDecryptor::new_rfc9580 with AEAD octet 1, every chunk-size octet, key of matching length: Ok/Err, no panic",
          ["crypto::aead::StreamDecryptor::new_rfc9580", "crypto::aead::aead_setup_rfc9580", "crypto::aead::AeadAlgorithm::{nonce_size,tag_size}"], "AEAD octet 1, chunk octet symbolic"),
        H("c04_seipdv2_aead2", "c04_aead", "quick", 600, "StreamDecryptor::new_rfc9580 with AEAD octet 2, every chunk-size octet, key of matching length: Ok/Err, no panic",
          ["crypto::aead::StreamDecryptor::new_rfc9580", "crypto::aead::aead_setup_rfc9580", "crypto::aead::AeadAlgorithm::{nonce_size,tag_size}"], "AEAD octet 2, chunk octet symbolic"),
        H("c04_seipdv2_aead3", "c04_aead", "thorough", 600, "StreamDecryptor::new_rfc9580 with AEAD octet 3, every chunk-size octet, key of matching length: Ok/Err, no panic",
          ["crypto::aead::StreamDecryptor::new_rfc9580", "crypto::aead::aead_setup_rfc9580", "crypto::aead::AeadAlgorithm::{nonce_size,tag_size}"], "AEAD octet 3, chunk octet symbolic"),
        H("c04_seipdv2_aead4", "c04_aead", "quick", 600, "StreamDecryptor::new_rfc9580 with AEAD octet 4, every chunk-size octet, key of matching length: Ok/Err, no panic",
          ["crypto::aead::StreamDecryptor::new_rfc9580", "crypto::aead::aead_setup_rfc9580", "crypto::aead::AeadAlgorithm::{nonce_size,tag_size}"], "AEAD octet 4, chunk octet symbolic"),
        H("c04_seipdv2_aead100", "c04_aead", "quick", 600, "StreamDecryptor::new_rfc9580 with AEAD octet 100, every chunk-size octet, key of matching length: Ok/Err, no panic",
          ["crypto::aead::StreamDecryptor::new_rfc9580", "crypto::aead::aead_setup_rfc9580", "crypto::aead::AeadAlgorithm::{nonce_size,tag_size}"], "AEAD octet 100, chunk octet symbolic"),
        H("c04_seipdv2_aead200", "c04_aead", "thorough", 600, "StreamDecryptor::new_rfc9580 with AEAD octet 200, every chunk-size octet, key of matching length: Ok/Err, no panic",
          ["crypto::aead::StreamDecryptor::new_rfc9580", "crypto::aead::aead_setup_rfc9580", "crypto::aead::AeadAlgorithm::{nonce_size,tag_size}"], "AEAD octet 200, chunk octet symbolic"),
    ],
}

# ------------------------------------------------------------------------------------------------
VER_FUNCS = ["packet::Signature::{verify,verify_key_third_party,verify_third_party_certification,verify_subkey_binding,"
             "verify_primary_key_binding,match_identity,check_signature_key_version_alignment}", "packet::SignatureConfig::{hash_signature_data,"
             "hash_data_to_sign,trailer}", "packet::signature::types::serialize_for_hashing"]
PROPS["C02"] = {
    "inject": [("src/packet/signature/types.rs", "c11_sig"), ("src/packet/one_pass_signature.rs", "c15_ops")],
    "mem_gb": 14,
    "level_text": "Bounded model checking of every verify entry point of the signature packet with ideal hash/signature primitives: "
                  "for two fully symbolic situations (signed A, presented B) the solver shows verify(B)=Ok implies A and B agree in "
                  "every field, so no modified content, metadata, salt, type or hash prefix is accepted.",
    "level_note": "Bounds: documents 2-3 bytes, key/id bodies 3-4 bytes, hashed area = creation time + one opaque subpacket; SHA-256 id. "
                  "Rejection of a modified signature *value* or of another key without issuer subpacket is the (ideal) primitive's contract.",
    "bounds": "documents 2-3 bytes; key and id bodies 3-4 bytes; hashed area 10 bytes; v4 and v6",
    "outside": "real RSA/ECC/EdDSA verification; hash collision resistance; the unhashed area (not protected by design); Message::verify over a parsed message; cleartext framework",
    "assumptions": SIG_ASSUME,
    "harnesses": [
        H("c02_data_v4_2", "c11_sig", "quick", 900, "v4 data signature: signed A vs presented B (doc, pk octet, time, subpacket type/critical/body, hash prefix)", VER_FUNCS, "doc 2 bytes"),
        H("c02_data_v6_2", "c11_sig", "quick", 900, "v6 data signature incl. salt", VER_FUNCS, "doc 2 bytes"),
        H("c02_data_v4_2_other", "c11_sig", "quick", 900, "as c02_data_v4_2 with an unknown (Other) non-critical hashed subpacket: its type and body are bound", VER_FUNCS, "doc 2 bytes"),
        H("c15_ops_v3_sig4", "c15_ops", "quick", 600, "one-pass header vs signature: any mismatch in type/hash/pk octets invalidates", ["packet::OnePassSignature::matches"], "6 symbolic octets"),
        H("c15_ops_v6_sig6", "c15_ops", "thorough", 600, "one-pass v6: salt mismatch invalidates", ["packet::OnePassSignature::matches"], "salt octets"),
        H("c02_truncated_3_2", "c11_sig", "quick", 900, "message truncated by one byte is rejected", VER_FUNCS, "3 -> 2 bytes"),
        H("c02_extended_2_3", "c11_sig", "thorough", 900, "message extended by one byte is rejected", VER_FUNCS, "2 -> 3 bytes"),
        H("c02_key_v4", "c11_sig", "quick", 900, "direct-key/revocation: key body, key version framing, type", VER_FUNCS, "key body 4 bytes"),
        H("c02_key_v6", "c11_sig", "thorough", 900, "direct-key/revocation v6", VER_FUNCS, "key body 4 bytes"),
        H("c02_cert_v4", "c11_sig", "quick", 900, "certification: id bytes, id/attribute tag, key body", VER_FUNCS, "id 3 bytes, key 3 bytes"),
        H("c02_cert_v6", "c11_sig", "thorough", 900, "certification v6", VER_FUNCS, "id 3 bytes, key 3 bytes"),
        H("c02_subkey_binding_v4", "c11_sig", "quick", 900, "subkey binding: both key bodies and their order", VER_FUNCS, "keys 3+3 bytes"),
        H("c02_primary_binding_v4", "c11_sig", "thorough", 900, "primary-key binding", VER_FUNCS, "keys 3+3 bytes"),
        H("c15_issuer_keyid", "c11_sig", "quick", 900, "issuer key id subpacket vs verifying key id: accepted iff equal", VER_FUNCS, "8+8 symbolic bytes"),
    ],
}
OPS_F = ["packet::OnePassSignature::matches"]
PROPS["C15"] = {
    "inject": [("src/packet/signature/types.rs", "c11_sig"), ("src/packet/one_pass_signature.rs", "c15_ops")],
    "mem_gb": 14,
    "level_text": "Bounded model checking of the acceptance rules on the signature path as truth tables over symbolic version / type / "
                  "criticality octets, each against the RFC 9580 rule as oracle.",
    "level_note": "Covers: v6<->v6 key/signature alignment on sign and verify, unknown critical hashed subpackets, issuer key id binding. "
                  "ESK/container version filtering and key-import parity need Message::from_bytes / key_parser, which exceed "
                  "goto-instrument's memory (see DESIGN.md) and are outside.",
    "bounds": "key version in {4,6} x signature version {4,6}; opaque subpacket types 0..127 x critical bit",
    "outside": "esk_filter mapping inside MessageParser::visit_esk; OnePassSignature::matches inside SignatureManyReader; key parser subkey-version rule; public/secret import parity",
    "assumptions": SIG_ASSUME,
    "harnesses": [
        H("c15_align_sig_v4", "c11_sig", "quick", 900, "v4 signature verified under v4|v6 key: accepted iff versions align", VER_FUNCS, "key version symbolic"),
        H("c15_align_sig_v6", "c11_sig", "quick", 900, "v6 signature verified under v4|v6 key", VER_FUNCS, "key version symbolic"),
        H("c15_sign_align_v4", "c11_sig", "quick", 900, "sign() with v4 config under v6 key refused", SIGN_FUNCS, ""),
        H("c15_sign_align_v6", "c11_sig", "quick", 900, "sign() with v6 config under v4 key refused", SIGN_FUNCS, ""),
        H("c11_fields_v4", "c11_sig", "quick", 600, "unknown critical hashed subpacket refused, non-critical / experimental accepted", SIGN_FUNCS, "types 0..127"),
        H("c11_fields_v4_exp", "c11_sig", "quick", 600, "experimental critical subpacket accepted", SIGN_FUNCS, "types 100..110"),
        H("c15_issuer_keyid", "c11_sig", "thorough", 900, "issuer key id binding", VER_FUNCS, ""),
        H("c15_issuer_fpr_mismatch_v4sig", "c11_sig", "quick", 900, "v4 signature with a v6 issuer fingerprint in the hashed area is refused", SIGN_FUNCS, ""),
        H("c15_issuer_fpr_mismatch_v6sig", "c11_sig", "thorough", 900, "v6 signature with a v4 issuer fingerprint is refused", SIGN_FUNCS, ""),
        H("c15_ops_v3_sig4", "c15_ops", "quick", 600, "OPS v3 vs v4 signature: matches iff type, hash, pk octets equal", OPS_F, "6 symbolic octets"),
        H("c15_ops_v3_sig6", "c15_ops", "quick", 600, "OPS v3 vs v6 signature: never matches", OPS_F, "6 symbolic octets"),
        H("c15_ops_v6_sig6", "c15_ops", "quick", 600, "OPS v6 vs v6 signature: also salts equal", OPS_F, "6 octets + 2x2 salt octets"),
        H("c15_ops_v6_sig4", "c15_ops", "thorough", 600, "OPS v6 vs v4 signature: never matches", OPS_F, "6 symbolic octets"),
        H("c15_ops_unknown_sig4", "c15_ops", "quick", 600, "OPS of unknown version (any octet) vs v4 signature: never matches", OPS_F, "7 symbolic octets"),
        H("c15_align_cert_v4sig", "c11_sig", "quick", 900, "third-party certification, v4 signature: accepted iff the *signer* is v4, whatever the signee version", VER_FUNCS, "signer/signee version in {4,6}"),
        H("c15_align_cert_v6sig", "c11_sig", "thorough", 900, "third-party certification, v6 signature", VER_FUNCS, "signer/signee version in {4,6}"),
    ],
}

# ------------------------------------------------------------------------------------------------
FPR_F = ["packet::key::public::PubKeyInner::imprint::<D>", "packet::PublicKey::imprint", "packet::PublicSubkey::imprint", "types::PublicParams::to_writer (Unknown)", "types::Fingerprint::{len,version,as_bytes}"]
PROPS["C13"] = {
    "inject": [("src/packet/key/public.rs", "c13_fpr")],
    "mem_gb": 12,
    "level_text": "Bounded model checking of the real fingerprint construction with the digest as an injective recorder (the code is generic "
                  "over the digest type, no stub): for every creation time, algorithm octet and key body the hashed byte string equals the "
                  "RFC 9580 5.5.4 framing (0x99 len16 / 0x9B len32 + inner count).",
    "level_note": "Bounds: opaque key bodies of 0-5 octets (Unknown-algorithm parameters); v4 and v6 primary and subkey packets. "
                  "That MD5/SHA-1/SHA-256 compute correctly, v3 RSA keys, and the sites embedding ids into signatures/ESKs are outside.",
    "bounds": "key body 0..5 octets, creation time and algorithm octet fully symbolic, v4|v6, primary|subkey",
    "outside": "v3 (MD5 over RSA MPIs: needs RSA parameter objects); the hash functions; bodies > 255 octets as data (length-field width is in the type); builder sites that embed ids",
    "assumptions": [FMT_STUBS, "digest = injective recorder passed as the generic parameter D"],
    "harnesses": [
        H("c13_fpr_input_v4_5", "c13_fpr", "quick", 600, "v4 fingerprint input for a 5-octet key body", FPR_F, "body 5"),
        H("c13_fpr_input_v6_5", "c13_fpr", "quick", 600, "v6 fingerprint input for a 5-octet key body", FPR_F, "body 5"),
        H("c13_fpr_input_v4_0", "c13_fpr", "thorough", 600, "v4 fingerprint input, empty body", FPR_F, "body 0"),
        H("c13_fpr_input_subkey_v4", "c13_fpr", "quick", 600, "v4 public subkey: same 0x99 framing", FPR_F, "body 3"),
        H("c13_keyid_from_fingerprint", "c13_fpr", "quick", 600, "Fingerprint accessors", FPR_F, "20/32 symbolic bytes"),
        H("c13_pkesk_match_v3", "c13_fpr", "quick", 600, "v3 PKESK recipient matching: key id equal or wildcard; unknown versions never match", ["packet::PublicKeyEncryptedSessionKey::match_identity"], "8+8 symbolic octets"),
        H("c13_pkesk_match_v6", "c13_fpr", "quick", 600, "v6 PKESK recipient matching: fingerprint equal or absent", ["packet::PublicKeyEncryptedSessionKey::match_identity"], "32+32 symbolic octets"),
    ],
}

# ------------------------------------------------------------------------------------------------
AEAD_F = ["crypto::aead::StreamEncryptor::{new,read,fill_buffer,create_final_auth_tag}", "crypto::aead::aead_setup_rfc9580", "crypto::aead::ChunkSize::{as_byte_size,try_from}", "util::fill_buffer"]
AEAD_ASSUME = [FMT_STUBS, "AEAD primitive replaced by a model (identity cipher, tag = chunk-index octets of the nonce || AD length || AD tail) via "
               "kani::stub(AeadAlgorithm::encrypt_in_place); the reference layout calls the same function, so native replay uses real AES-OCB/GCM/EAX",
               "layout harnesses: aead_setup_rfc9580 stubbed (info per RFC, fixed key, zero IV); the real function is checked in c12_aead_setup_info with "
               "sha2::sha256::compress256 stubbed to a no-op"]
C12_H = [
    H("c12_aead_enc_%d" % n, "c12_aead", tier, 1200, "SEIPDv2 StreamEncryptor over %d octets (symbolic octets at chunk edges): stream == RFC chunk/tag schedule" % n, AEAD_F, "N=%d, chunk 64" % n)
    for n, tier in [(0, "quick"), (1, "quick"), (64, "quick"), (65, "quick"), (70, "thorough"), (128, "thorough")]
] + [H("c12_aead_setup_info", "c12_aead", "thorough", 2400, "real aead_setup_rfc9580 (HKDF with no-op compression): info = D2 02 cipher aead chunk, key/nonce lengths, zero chunk index", AEAD_F, "AEAD 1..3, chunk octet 0..16")
] + [H("c12_chunk_size_octets", "c12_aead", "quick", 300, "chunk size octet 0..255: legal iff <= 16, size = 2^(c+6)", AEAD_F, "all octets")]
S2K_F = ["types::StringToKey::derive_key (Simple, Salted, IteratedAndSalted arms)"]
C12_H += [
    H("c12_s2k_simple_2rounds", "c12_s2k", "quick", 900, "simple S2K, SHA-1, 32-octet key: round n preloads n zero octets then password", S2K_F, "password 2 symbolic octets"),
    H("c12_s2k_salted_2rounds", "c12_s2k", "quick", 900, "salted S2K, two rounds: zero preload, salt, password", S2K_F, "salt 8 + password 2 symbolic octets"),
    H("c12_s2k_iterated_c0", "c12_s2k", "thorough", 3000, "iterated S2K, coded count 0 (1024 octets), two rounds", S2K_F, "salt 8 + password 2 symbolic octets"),
]
C12_H += [
    H("c12_ecdh_pad_%d" % l, "c12_ecdh", "quick" if l in (0, 8, 19) else "thorough", 600, "ECDH PKCS5-style padding of a %d-octet plaintext: 1..8 octets, value = count, multiple of 8" % l, ["crypto::ecdh::pad"], "L=%d" % l)
    for l in (0, 1, 7, 8, 9, 16, 19)
]
PROPS["C12"] = {
    "inject": [("src/lib.rs", "c12_aead"), ("src/lib.rs", "c12_s2k"), ("src/crypto/ecdh.rs", "c12_ecdh"), ("src/crypto/sym/encryptor.rs", "c09_cfb")],
    "mem_gb": 14,
    "level_text": "Bounded model checking of the real SEIPDv2 stream writer against an independent RFC 9580 5.13.2 schedule (per-chunk nonce "
                  "= IV||index, AD = info, final AD = info||total octets, info = D2 02 cipher aead chunk), with the AEAD primitive as a model "
                  "that exposes nonce index and AD in the tag.",
    "level_note": "Bounds: chunk size 64 (smallest legal), plaintext 0..128 octets with symbolic octets at chunk edges, AES128 x {EAX,OCB,GCM}. "
                  "The primitives, SEIPDv1/CFB, SKESK, S2K iteration streams, ECDH KDF and secret-key protection are outside (see DESIGN.md).",
    "bounds": "plaintext lengths {0,1,64,65,70,128}, chunk size 64, AES128, 3 AEAD modes",
    "outside": "AEAD/HKDF/SHA-2 internals; chunk sizes > 64 as data; SEIPDv1/CFB; SKESK; S2K coded counts other than 0 and Argon2 internals; ECDH/X25519 wrap; secret-key protection; reader side",
    "assumptions": AEAD_ASSUME,
    "harnesses": C12_H,
}

# ------------------------------------------------------------------------------------------------
PROPS["C10"] = {
    "substitutions": [("src/base64/decoder.rs", "const BUF_SIZE: usize = 1024;", "const BUF_SIZE: usize = 16;")],
    "inject": [("src/armor/writer.rs", "c10_armor"), ("src/base64/reader.rs", "c10_b64"), ("src/armor/reader.rs", "c10_dearmor")],
    "mem_gb": 12,
    "level_text": "Bounded model checking of the checksum path of the armor writer (table-driven CRC-24 == bitwise RFC 9580 6.1.1 algorithm for every "
                  "data of the stated lengths and any chunking), of the dearmorer's first stage (Base64Reader == unfragmented reference for every source "
                  "and fragmentation) and of its checksum decision (real read_body + crc24_status for every 24-bit footer value).",
    "level_note": "Bounds: CRC data 0..3 octets (byte-wise fold, the step is what is checked); Base64Reader sources <= 5 (8) octets; checksum decision on two "
                  "concrete bodies x all 2^24 footer values with the base64 engine modelled. Known finding F5 (calculated CRC never updated) is reported by "
                  "c10_dearmor_crc_decision* as KNOWN-FINDING. Not covered: armor header/footer nom parsers, Base64Decoder's engine, body line wrapping, "
                  "header maps, tolerant-whitespace rules.",
    "bounds": "CRC data 0..3 octets, one split; Base64Reader N<=8 x all splits; checksum decision 2 bodies x 2^24 footers",
    "outside": "body line wrapping and base64 of the body; armor header/footer parsers and tolerant reading; header maps; block types",
    "assumptions": [FMT_STUBS, "c10_dearmor_*: base64::decoder::try_decode_engine_slice (the `base64` crate's engine) replaced by an RFC 4648 model for unpadded quanta; Base64Decoder's BUF_SIZE scaled 1024 -> 16 in the checked copy (buffer_redux zeroes the whole buffer in a loop)"],
    "harnesses": [
        H("c10_crc24_%d" % l, "c10_armor", "quick" if l in (1, 2) else "thorough", 600, "Crc24Hasher over every %d-octet data == bitwise RFC CRC-24" % l, ["crc24::Crc24Hasher::{new,write,finish}"], "L=%d" % l) for l in range(4)
    ] + [
        H("c10_crc24_split_2_1", "c10_armor", "quick", 600, "CRC over 2+1 chunking == reference", ["crc24::Crc24Hasher"], "L=3"),
    ] + [
        H("c10_b64reader_%d_%d" % nm, "c10_b64", "quick" if nm[0] <= 5 else "thorough", 900,
          "Base64Reader::read over every %d-octet source x every 2-chunk fragmentation, %d-octet destination: tokens = unfragmented reference (CR/LF skipped, stop at first foreign octet), consumed prefix independent of the fragmentation" % nm,
          ["base64::Base64Reader::{new,read,into_inner}", "base64::reader::is_base64_token"], "N=%d octets (all values), split 0..N, destination %d" % nm)
        for nm in [(2, 2), (3, 3), (4, 2), (4, 4), (5, 4), (6, 6), (8, 4)]
    ] + [
        H("c10_dearmor_crc_decision" + sfx, "c10_dearmor", "quick", 900,
          "real Dearmor::read_body over one body of %s then crc24_status() with CRC checking on, for EVERY 24-bit footer value: CheckedOk iff footer == RFC CRC-24 of the decoded data (fails with known finding F5 on the unchanged tree)" % what,
          ["armor::reader::Dearmor::{read_body,crc24_status}", "base64::Base64Decoder::read", "base64::Base64Reader::read", "crc24::Crc24Hasher"],
          "body concrete (%s), footer checksum symbolic (2^24 values)" % what)
        for sfx, what in [("", "'AAAA'"), ("_b", "'SGVsbG8h'")]
    ] + [
        H("c10_dearmor_options_builder", "c10_dearmor", "quick", 300, "DearmorOptions builder: any order of enable_crc24_check / set_limit keeps both settings, checking is off by default", ["armor::reader::DearmorOptions::{new,default,set_limit,enable_crc24_check}"], "limits symbolic usize"),
    ],
}

# ------------------------------------------------------------------------------------------------
PROPS["C19"] = {
    "inject": [("src/lib.rs", "c19_s2k"), ("src/lib.rs", "c09_io")],
    "mem_gb": 24,
    "level_text": "Bounded model checking of the cost ceilings that are pure control flow: for every Argon2 (t, p, m) octet triple the KDF "
                  "primitive is reached only within the documented ceiling; buffer-filling primitives take exactly the octets present.",
    "level_note": "Argon2 replaced by a reach-recording stub, f32::log2 by an exact integer model. Allocation proportionality of the packet "
                  "parsers, deeply repeated structures and streaming memory bounds need the message reader (BytesMut, whole-message parse), "
                  "which Kani cannot decide here; they are outside.",
    "bounds": "all 2^24 (t,p,m_enc) triples; password 2 octets; key size 16",
    "outside": "allocation sizes of parsers (take_bytes cap, MPI cap, subpacket areas); 10^5-packet inputs; streaming buffers; iterated-S2K count (no ceiling in the code); wall clock / RSS",
    "assumptions": [FMT_STUBS, "argon2::Argon2::hash_password_into stubbed (records that it was reached)", "f32::log2 stubbed by an exact model on 0..=255"],
    "harnesses": [
        H("c19_argon2_ceiling", "c19_s2k", "quick", 900, "StringToKey::derive_key, Argon2 arm: primitive reached only if t<=32, p<=32, m<=2^21 KiB", ["types::StringToKey::derive_key (Argon2 arm)"], "t,p,m_enc full octets"),
        H("c09_take_bytes_3", "c09_io", "quick", 900, "take_bytes: all-or-error, consumes exactly the octets returned", IO_F, "<=4 bytes"),
        H("c09_read_arr_4", "c09_io", "quick", 600, "read_arr: all-or-error", IO_F, "<=5 bytes"),
    ],
}

# ------------------------------------------------------------------------------------------------
def _pick(pid, names, tier_map=None):
    out = []
    for h in PROPS[pid]["harnesses"]:
        if h["name"] in names:
            out.append(dict(h, tier=(tier_map or {}).get(h["name"], h["tier"])))
    return out


PROPS["C06"] = {
    "inject": [("src/packet/signature/types.rs", "c11_sig"), ("src/lib.rs", "c14_hasher"), ("src/normalize_lines.rs", "c14_norm"), ("src/util.rs", "c14_hstate")],
    "substitutions": PROPS["C14"]["substitutions"],
    "mem_gb": 14,
    "level_text": "Sign-side and verify-side computations are shown equal by bounded model checking of each side against the same independent "
                  "RFC 9580 reference: the digest a sign_* call hands to the key equals the reference transcript, and a signature "
                  "carrying the reference digest is accepted by the corresponding verify_* call, for every value of the symbolic fields; "
                  "text canonicalisation on the signing side (streaming hasher) and on the verifying side (replace_newlines) each "
                  "equal the same byte-at-a-time reference.",
    "level_note": "Covers the low-level signature API (SignatureConfig::sign*, Signature::verify*) with ideal hash and signature primitives. "
                  "Text-mode Signature::verify end-to-end (NormalizedReader + io::copy through an 8 KiB buffer), DetachedSignature, the "
                  "cleartext framework and MessageBuilder/Message::verify are outside: Kani cannot decide them (DESIGN.md 0.6).",
    "bounds": "as C11 and C14",
    "outside": "DetachedSignature wrappers, cleartext framework (finding: see DESIGN 0.5/notes), inline-signed messages, serialise+armor+parse in between",
    "assumptions": SIG_ASSUME + PROPS["C14"]["assumptions"],
    "harnesses": _pick("C11", {"c11_sign_data_v4_2_bin", "c11_sign_data_v4_2_text", "c11_verify_data_v4_2", "c11_sign_data_v6_2_text", "c11_sign_data_v6_2_bin", "c11_verify_data_v6_2", "c11_sign_key_v4", "c11_verify_key_v6",
                               "c11_sign_subkey_binding_v4", "c11_verify_subkey_binding_v6", "c11_sign_primary_binding_v6", "c11_verify_primary_binding_v4",
                               "c11_sign_cert_v4_positive", "c11_verify_cert_v4_positive", "c11_sign_cert_v4_revocation", "c11_verify_cert_v4_revocation"},
                       {"c11_verify_cert_v4_revocation": "quick", "c11_sign_data_v6_2_text": "thorough", "c11_sign_data_v6_2_bin": "thorough", "c11_sign_primary_binding_v6": "thorough", "c11_verify_primary_binding_v4": "thorough",
                        "c11_sign_subkey_binding_v4": "thorough", "c11_verify_subkey_binding_v6": "thorough"})
                 + _pick("C14", {"c14_hasher_step_3", "c14_hasher_two_1_2", "c14_replace_2", "c14_hasher_carry_1", "c14_hasher_carry_2", "c14_reader_fill_0", "c14_reader_step_0"}),
}

# ------------------------------------------------------------------------------------------------
MDC_F = ["crypto::sym::decryptor::StreamDecryptorInner::<Aes128,&[u8]>::{finalize_data,fill_inner,read}", "sha1::Sha1::{update,finalize} (compression stubbed)"]
V2_F = ["crypto::aead::decryptor::StreamDecryptor::<&[u8]>::{decrypt,decrypt_last,fill_inner,read,out_buffer_remaining}", "util::fill_buffer_bytes"]
PROPS["C03"] = {
    "inject": [("src/crypto/sym/decryptor.rs", "c03_mdc"), ("src/crypto/aead/decryptor.rs", "c03_aead"), ("src/lib.rs", "c03_cfg")],
    "mem_gb": 14,
    "level_text": "Bounded model checking of the decision steps of the real stream decryptors, each from a state built by struct literal. SEIPDv1: with 22 "
                  "arbitrary trailing octets finalize_data accepts exactly D3 14 || digest, a refusal leaves the reader in its error state and every read from "
                  "it fails. SEIPDv2 (model AEAD): decrypt() accepts a chunk iff its tag was made for the decryptor's current chunk index and then accounts its "
                  "octets and advances nonce/index; decrypt_last() accepts a final tag iff it was made for exactly the chunk count and total octet count seen "
                  "(all four u64 symbolic); a tail shorter than a tag is an error.",
    "level_note": "NARROW, single steps only. SEIPDv1: MDC decision and stickiness of the error state of sym::StreamDecryptorInner (Aes128 over &[u8], check-first "
                  "and streaming, 2 plaintext octets); SHA-1 compression is a no-op so the digest is a constant - that it covers prefix and plaintext, and the "
                  "CheckFirst buffering in fill_data, are not covered. SEIPDv2: chunk and final-tag decisions of aead::StreamDecryptor (AES128/GCM labels, 2-octet "
                  "chunk, AEAD = model whose tag exposes nonce index and AD; expected tags are produced through the same primitive so replays use real AES-GCM) "
                  "and tails of 0/1/15 octets; the composition of the steps by fill_inner over a whole container (buffer refills, several chunks) timed out even "
                  "for one chunk and is not covered, nor are header-field changes (they enter through HKDF) or the non-sticky state after a failed final tag.",
    "bounds": "v1: 2 plaintext octets + 22 symbolic MDC octets, consumer buffer 0..4; v2: chunk of 2 octets, chunk index / octet count / tag provenance full u64",
    "outside": "whole-container reads (refills, multiple chunks); data-dependence of the v1 digest; fill_data; header fields; GnuPG AEAD mode; message-level trailing-data check",
    "assumptions": [FMT_STUBS, "sha1::compress::compress is a no-op (digest = SHA-1 initial state); AES-128 key schedule real on a fixed key; state constructed directly, "
                    "not reached through fill_data",
                    "c03_seipdv2_*: AeadAlgorithm::{encrypt,decrypt}_in_place replaced by a model AEAD (16-octet tag = be64(nonce index) || low 8 AD octets ^ AD length; "
                    "decrypt checks and strips it); states constructed directly"],
    "harnesses": [
        H("c03_seipdv2_final_tag_decision", "c03_aead", "quick", 600, "decrypt_last on a final tag made for (chunk count kt, octets wt) while the decryptor has seen (k, w), all symbolic u64: Ok iff kt = k and wt = w", V2_F, "4 symbolic u64"),
        H("c03_seipdv2_chunk_decision", "c03_aead", "quick", 600, "decrypt() on a 2-octet chunk whose tag was made for index kt while the decryptor is at k: Ok iff kt = k; then written += 2, index + 1, nonce = IV || be64(k+1), exactly 2 plaintext octets exposed", V2_F, "3 symbolic u64 + 2 symbolic octets"),
        H("c03_seipdv2_truncated_0", "c03_aead", "quick", 300, "read() when the source ends with 0 octets left and nothing buffered: error, never a clean empty end", V2_F, "tail 0 octets"),
        H("c03_seipdv2_truncated_1", "c03_aead", "thorough", 300, "same with 1 arbitrary trailing octet", V2_F, "tail 1 symbolic octet"),
        H("c03_seipdv2_truncated_15", "c03_aead", "quick", 300, "same with 15 arbitrary trailing octets (one short of a tag)", V2_F, "tail 15 symbolic octets"),
        H("c03_seipd_config_octets", "c03_cfg", "quick", 600, "SEIPD header parser on version 2 + arbitrary cipher/AEAD/chunk-size octets + salt: Ok iff chunk-size octet <= 16; parse + serialise keeps every octet (no normalisation of altered header fields)", ["packet::sym_encrypted_protected_data::Config::{try_from_reader,to_writer,write_len}"], "3 parameter octets + 2 salt octets symbolic"),
        H("c03_seipd_config_version", "c03_cfg", "quick", 300, "every version octet other than 2: accepted iff 1", ["packet::sym_encrypted_protected_data::Config::try_from_reader"], "version octet symbolic"),
        H("c03_mdc_decision_streaming", "c03_mdc", "quick", 900, "streaming mode: finalize_data on 2 data octets + 22 arbitrary octets: Ok iff tag D3, length 14 and all 20 digest octets match; Ok => Done with exactly the data; Err => Error state", MDC_F, "22 symbolic MDC octets, 2 symbolic data octets"),
        H("c03_mdc_decision_check_first", "c03_mdc", "quick", 900, "same in check-first mode", MDC_F, "22 symbolic MDC octets, 2 symbolic data octets"),
        H("c03_error_state_is_sticky", "c03_mdc", "quick", 300, "read()/fill_inner() from the error state: always Err, state unchanged (no clean end of stream, no octet released)", MDC_F, "consumer buffer length symbolic 0..4"),
    ],
}

PROPS["C12"]["harnesses"] = PROPS["C12"]["harnesses"] + [
    H("c12_seipdv1_prefix_layout", "c09_cfb", "quick", 900, "SEIPDv1 StreamEncryptorInner::new with an RNG delivering arbitrary octets (CFB = identity): prefix = 16 random octets + repetition of the last two (RFC 9580 5.13.1 quick check), 18 octets, initial state Prefix",
      ["crypto::sym::encryptor::StreamEncryptorInner::<Aes128,&[u8]>::new"], "16 symbolic RNG octets"),
]
PROPS["C12"]["assumptions"] = PROPS["C12"]["assumptions"] + ["c12_seipdv1_prefix_layout: cfb_mode::BufEncryptor::encrypt and sha1 compression are no-ops; RNG = arbitrary octets"]

# C04 also runs the hostile-input parser harnesses of C17/C05/C10: every one of them feeds arbitrary octets to a real
# parser and Kani reports any reachable panic (index, slice, overflow, unwrap, unreachable) as a failed check, so
# each is at the same time a no-panic / termination verdict for that parser at that input length.
_C04_PICKS = (_pick("C17", {"c17_header_parse_total", "c17_len_parse_total", "c17_len_parse_truncated"})
              + _pick("C05", {"c05_subpacket_len_parse_total", "c05_s2k_other_255", "c05_s2k_salted_trunc", "c05_s2k_iterated_trunc",
                              "c05_s2k_argon2_trunc", "c05_mpi_bits16385", "c05_mpi_bits17_trunc", "c08_usage_255"},
                      {"c05_s2k_other_255": "thorough"})
              + _pick("C10", {"c10_b64reader_5_4", "c10_b64reader_8_4"}))
SKESK_F = ["packet::SymKeyEncryptedSessionKey::decrypt (V4 arm: plausibility of the decrypted session key)"]
PROPS["C04"]["harnesses"] = PROPS["C04"]["harnesses"] + [
    H("c04_skesk_v4_plain_%d" % n, "c04_skesk", tier, 600,
      "v4 SKESK (struct literal) whose encrypted-key field holds %d attacker-chosen octets, public decrypt() with a 16-octet key, CFB = identity: Ok/Err, no panic; Ok only if the first octet names a cipher whose key size is the remaining length" % n,
      SKESK_F, "N=%d symbolic octets" % n)
    for n, tier in [(0, "quick"), (1, "quick"), (2, "thorough"), (17, "quick")]
]
PROPS["C04"]["harnesses"] = PROPS["C04"]["harnesses"] + [
    H("c04_aes_kw_unwrap_%d" % n, "c04_aeskw", tier, 300,
      "crypto::aes_kw::unwrap (reached from every ECDH PKESK with the attacker's wrapped-key field) on %d arbitrary octets: error, no panic (found F9)" % n,
      ["crypto::aes_kw::unwrap"], "N=%d symbolic octets" % n)
    for n, tier in [(0, "quick"), (3, "thorough"), (7, "quick")]
]
PROPS["C04"]["harnesses"] = PROPS["C04"]["harnesses"] + [
    H("c04_secret_checksum_%s" % n, "c04_secchk", tier, 300,
      "EncryptedSecretParams::checksum on locked secret material (usage_octets: %s) built directly: no panic, at most the check-value length, the trailing octets when enough are present (found F10)" % n,
      ["types::EncryptedSecretParams::{new,checksum}"], "N symbolic octets")
    for n, tier in [("255_0", "quick"), ("255_1", "quick"), ("255_3", "thorough"), ("254_19", "quick"), ("254_21", "thorough")]
]
PROPS["C04"]["inject"] = PROPS["C04"]["inject"] + [("src/packet/sym_key_encrypted_session_key.rs", "c04_skesk"), ("src/lib.rs", "c04_aeskw"), ("src/lib.rs", "c04_secchk")]
PROPS["C04"]["assumptions"] = PROPS["C04"]["assumptions"] + ["c04_skesk_*: SymmetricKeyAlgorithm::decrypt_with_iv_regular is a no-op (the decrypted session-key plaintext is the attacker's octets)"]
PROPS["C04"]["harnesses"] = PROPS["C04"]["harnesses"] + [h for h in _C04_PICKS if h["name"] not in {x["name"] for x in PROPS["C04"]["harnesses"]}]
PROPS["C04"]["inject"] = PROPS["C04"]["inject"] + [i for i in PROPS["C17"]["inject"] + PROPS["C05"]["inject"] + PROPS["C10"]["inject"]
                                                     if i not in PROPS["C04"]["inject"]]
PROPS["C04"]["inject"] = list(dict.fromkeys(PROPS["C04"]["inject"]))
PROPS["C04"]["substitutions"] = list(PROPS["C17"].get("substitutions", [])) + list(PROPS["C10"].get("substitutions", []))
PROPS["C04"]["level_note"] += (" Besides the SEIPDv2 header harnesses, the arbitrary-octet parser harnesses of C17 (packet header/length), C05 (sub-packet length, "
                               "S2K specifiers incl. truncated ones, MPIs incl. over-cap, locked secret-key material) and C10 (Base64Reader) are run here as "
                               "no-panic/termination verdicts for those parsers at their stated input lengths.")

# measured single-harness wall times (s) of the slow ones, used only to order a parallel run (longest first)
COST = {
    "c11_sign_data_v4_2_text": 220, "c11_sign_data_v4_2_bin": 200, "c11_sign_data_v6_2_text": 220, "c11_sign_data_v6_2_bin": 200, "c11_sign_key_v4": 170, "c11_sign_cert_v4_positive": 150,
    "c11_sign_cert_v6_positive": 140, "c11_verify_key_v6": 110, "c11_sign_subkey_binding_v4": 85,
    "c05_s2k_other_255": 100,
}
