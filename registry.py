"""Harness registry: which harness modules are injected where, and what each harness encodes."""

FMT_STUBS = "std::fmt::format -> String::new(), snafu::backtrace_collection_enabled -> false (error messages outside the claim)"


def H(name, module, tier="quick", timeout=300, desc="", funcs=(), bounds="", replay="playback"):
    return {"name": name, "module": module, "tier": tier, "timeout": timeout, "desc": desc,
            "funcs": list(funcs), "bounds": bounds, "replay": replay}


PROPS = {}

# Properties not (yet) claimed, with the reason recorded in MANIFEST.json.  An entry here is ignored as
# soon as the property has a claimed entry in PROPS.
_PENDING = "no solver-decided check registered for this property yet (build in progress); see DESIGN.md section 3"
NOT_APPLICABLE = {pid: _PENDING for pid in ["C%02d" % i for i in range(1, 20)]}
NOT_APPLICABLE["C07"] = ("requires symbolic execution of real public-key key generation and signing (RSA/ECC/EdDSA "
                         "arithmetic cannot be bit-blasted); with the primitives stubbed the remaining check would not be "
                         "the property. Its MPI/padding sub-mechanism is checked under C05.")

# ------------------------------------------------------------------------------------------------
HASHER = ["util::NormalizingHasher::new", "util::NormalizingHasher::hash_buf", "util::NormalizingHasher::done"]
PROPS["C14"] = {
    "level_text": "Bounded model checking of the real canonicalisation code: for every chunk content within the stated "
                  "lengths and every reachable carry state, the SAT solver shows the streaming hasher's transcript equals a "
                  "byte-at-a-time reference transducer; one inductive step covers all chunkings.",
    "level_note": "Bounds: chunk lengths as listed in evidence; hash primitive = injective transcript model; Kani's std model "
                  "and CBMC are trusted; memchr SIMD paths not exercised.",
    "inject": [("src/lib.rs", "c14_hasher")],
    "mem_gb": 10,
    "bounds": "hasher: one chunk of L<=4 (quick) / L<=6 (thorough) arbitrary bytes from pre-state in {fresh, "
              "after-CR}, plus two-chunk compositions",
    "outside": "memchr SIMD paths (Kani compiles the portable fallback); inputs longer than the stated bounds",
    "assumptions": ["hash primitive replaced by an injective transcript recorder (ideal hash)"],
    "harnesses": [
        H("c14_hasher_step_%d" % l, "c14_hasher", "quick" if l <= 4 else "thorough", 600,
          "pre-state x one chunk of %d symbolic bytes x done(): transcript == byte-at-a-time reference" % l,
          HASHER, "L=%d, all 256 byte values, unwind %d" % (l, max(3, l + 2)))
        for l in range(0, 7)
    ] + [
        H("c14_hasher_two_1_2", "c14_hasher", "quick", 600, "two chunks 1+2", HASHER, "L=3"),
        H("c14_hasher_two_2_1", "c14_hasher", "quick", 600, "two chunks 2+1", HASHER, "L=3"),
        H("c14_hasher_two_2_2", "c14_hasher", "thorough", 900, "two chunks 2+2", HASHER, "L=4"),
        H("c14_hasher_binary_3", "c14_hasher", "quick", 300, "binary mode identity", HASHER, "L=3"),
    ],
}

# ------------------------------------------------------------------------------------------------
CODEC = ["types::PacketLength::{try_from_reader,to_writer_new,fixed_encoding_len}",
         "packet::PacketHeader::{try_from_reader,from_parts,to_writer,write_len,tag,packet_length}",
         "types::PacketHeaderVersion::{write_header,header_len}", "types::Tag::{from,into}"]
C17_CODEC = [
    H("c17_len_fixed_roundtrip", "c17_codec", "quick", 600, "every u32 length: writer == RFC 4.2.1 reference, size query, parse inverts", CODEC, "len: full u32"),
    H("c17_len_partial_roundtrip", "c17_codec", "quick", 300, "Partial(2^e), e in 0..=30", CODEC, "e: 0..=30"),
    H("c17_len_parse_total", "c17_codec", "quick", 600, "every 5-octet string: parser == RFC decoder incl. octets consumed", CODEC, "5 arbitrary octets"),
    H("c17_len_parse_truncated", "c17_codec", "quick", 600, "truncated length field => error", CODEC, "5 arbitrary octets cut at 0..4"),
    H("c17_header_new_roundtrip", "c17_codec", "quick", 900, "new-format header for every tag<64 and u32 length vs reference", CODEC, "tag 0..63, len full u32"),
    H("c17_header_old_roundtrip", "c17_codec", "quick", 900, "legacy header for every tag<16 and u32 length vs reference", CODEC, "tag 0..15, len full u32"),
    H("c17_header_parse_total", "c17_codec", "quick", 900, "every 6-octet string: header parser == RFC decoder; reserialise/parse; canonical identity", CODEC, "6 arbitrary octets"),
    H("c17_header_from_parts_rules", "c17_codec", "quick", 600, "illegal header/length combinations refused", CODEC, "tag 0..63, value full u32"),
]
PROPS["C17"] = {
    "inject": [("src/lib.rs", "c17_codec")],
    "mem_gb": 10,
    "level_text": "Bounded model checking of the real framing code: header/length codecs are decided for every u32 length, "
                  "every tag and both formats against an independent RFC 9580 4.2 encoder/decoder.",
    "level_note": "Codecs: no bound beyond the types. Error-message formatting stubbed. Kani/CBMC trusted.",
    "bounds": "codecs: full u32 lengths, tags 0..63, both header formats",
    "outside": "see DESIGN.md C17",
    "assumptions": [FMT_STUBS],
    "harnesses": list(C17_CODEC),
}
