#!/usr/bin/env python3
"""Regenerates MANIFEST.json from registry.py (claimed properties) + registry.NOT_APPLICABLE."""
import json, os, sys
sys.path.insert(0, os.path.dirname(os.path.abspath(__file__)))
import registry

ALL = [json.loads(l)["id"] for l in open(os.path.join(os.path.dirname(os.path.abspath(__file__)), "properties.jsonl"))]
checks = []
for pid in ALL:
    p = registry.PROPS.get(pid)
    if not p or not p.get("claimed", True):
        continue
    checks.append({
        "property_id": pid,
        "quick_cmd": "python3 run.py %s --tier quick" % pid,
        "thorough_cmd": "python3 run.py %s --tier thorough" % pid,
        "evidence_file": "/verif/evidence/%s.json" % pid,
        "replay_cmd_template": "python3 run.py --replay {path}",
        "engine": "kani-cbmc",
        "level_claimed": {
            "category": "model_checking",
            "text": p["level_text"],
            "design_ref": p.get("design_ref", "DESIGN.md section 3 (%s)" % pid),
        },
        "level_note": p["level_note"],
        "technique": p.get("technique", "bounded symbolic execution of the real Rust code (Kani -> CBMC -> CaDiCaL SAT verdict) "
                                        "against an independent RFC 9580 reference; counterexamples replayed natively"),
    })
na = [{"property_id": pid, "reason": registry.NOT_APPLICABLE[pid]} for pid in ALL
      if pid in registry.NOT_APPLICABLE and not (pid in registry.PROPS and registry.PROPS[pid].get("claimed", True))]
missing = [pid for pid in ALL if pid not in [c["property_id"] for c in checks] and pid not in [n["property_id"] for n in na]]
assert not missing, missing
m = {
    "version": 1,
    "setup_cmd": "python3 run.py --setup",
    "hooks": {
        "guard": "kani",
        "enable": "no source hooks in /repo: every check copies /repo's working tree to a scratch directory and appends "
                  "`#[cfg(kani)] #[path=...] mod __verif_<x>;` lines to the copy (cfg(kani) is set by cargo-kani only)",
        "baseline_off_cmd": "cd /repo && cargo test --workspace --no-fail-fast --offline",
        "source_commits": [],
        "add_only": True,
    },
    "engines": [{
        "name": "kani-cbmc", "path": "/verif/run.py",
        "serves_properties": [c["property_id"] for c in checks],
        "kind_free_text": "Kani 0.68.0 (rustc MIR -> goto-program) + CBMC 6.11.0 + CaDiCaL: bounded symbolic execution of the "
                          "real crate code, harnesses in /verif/harness, native replay through cargo kani playback",
    }],
    "checks": checks,
    "not_applicable": na,
    "notes": "see DESIGN.md; known findings and fixes in known_findings.json",
}
json.dump(m, open(os.path.join(os.path.dirname(os.path.abspath(__file__)), "MANIFEST.json"), "w"), indent=1)
print("claimed:", [c["property_id"] for c in checks], "n/a:", [n["property_id"] for n in na])
