//! Locked secret key material of any length is accepted by the parser; reading its check value must not panic.
use pgp::packet::{Packet, PacketParser};
use pgp::types::SecretParams;

#[test]
fn checksum_of_short_locked_secret_material_does_not_panic() {
    for usage in [254u8, 255u8] {
        for n in 0..3usize {
            // v4 secret key packet, X25519 (25): version, created, algorithm, 32 public octets,
            // usage octet, AES128, simple S2K / SHA-256, 16 IV octets, n octets of "encrypted" data
            let mut body = vec![4u8, 0, 0, 0, 1, 25];
            body.extend_from_slice(&[9u8; 32]);
            body.extend_from_slice(&[usage, 7, 0, 8]);
            body.extend_from_slice(&[0u8; 16]);
            body.extend_from_slice(&vec![0x5au8; n]);
            let mut pkt = vec![0xC5u8, body.len() as u8];
            pkt.extend_from_slice(&body);
            let parsed = PacketParser::new(&pkt[..]).next().expect("one packet").expect("parses");
            let Packet::SecretKey(key) = parsed else { panic!("not a secret key packet") };
            let SecretParams::Encrypted(_) = key.secret_params() else { panic!("not locked") };
            let r = std::panic::catch_unwind(std::panic::AssertUnwindSafe(|| key.secret_params().checksum()));
            assert!(r.is_ok(), "checksum() panicked for usage {usage} with {n} protected octets");
            assert!(r.unwrap().len() <= n);
        }
    }
}
