use pgp::composed::{Message, MessageBuilder};
use pgp::crypto::{aead::{AeadAlgorithm, ChunkSize}, sym::SymmetricKeyAlgorithm};
use pgp::packet::PacketHeader;
use pgp::types::StringToKey;

/// A SEIPDv2 message to a password the recipient holds, whose AEAD-algorithm octet in the SEIPDv2
/// header was set to an id without a nonce size (0): decrypting must return an error, not panic.
#[test]
fn seipdv2_unknown_aead_octet_must_not_panic() {
    let mut rng = rand::thread_rng();
    let mut b = MessageBuilder::from_bytes("", &b"hello"[..]).seipd_v2(&mut rng, SymmetricKeyAlgorithm::AES128, AeadAlgorithm::Ocb, ChunkSize::C64B);
    let s2k = StringToKey::new_iterated(&mut rng, pgp::crypto::hash::HashAlgorithm::Sha256, 0);
    b.encrypt_with_password(&mut rng, s2k, &"pw".into()).unwrap();
    let mut bytes = b.to_vec(&mut rng).unwrap();
    // skip the SKESK packet
    let mut rd = &bytes[..];
    let h = PacketHeader::try_from_reader(&mut rd).unwrap();
    let hl = bytes.len() - rd.len();
    let body = h.packet_length().maybe_len().unwrap() as usize;
    let seipd = hl + body;
    let mut rd2 = &bytes[seipd..];
    let h2 = PacketHeader::try_from_reader(&mut rd2).unwrap();
    assert_eq!(u8::from(h2.tag()), 18);
    let hl2 = bytes.len() - seipd - rd2.len();
    assert_eq!(bytes[seipd + hl2], 2); // version
    for aead in [0u8, 4, 100, 200] {
        bytes[seipd + hl2 + 2] = aead; // AEAD algorithm octet
        let msg = Message::from_bytes(&bytes[..]).unwrap();
        let r = std::panic::catch_unwind(std::panic::AssertUnwindSafe(|| msg.decrypt_with_password(&"pw".into()).map(|_| ())));
        assert!(r.is_ok(), "decrypt panicked for AEAD octet {aead}");
        assert!(r.unwrap().is_err());
    }
}
