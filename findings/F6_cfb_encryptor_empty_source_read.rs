use std::io::Read;
use pgp::crypto::sym::SymmetricKeyAlgorithm;
use rand::SeedableRng;

fn drive_read(src: &[u8], bufsize: usize) -> Vec<u8> {
    let rng = rand_chacha::ChaCha8Rng::seed_from_u64(1);
    let key = [7u8; 16];
    let mut enc = SymmetricKeyAlgorithm::AES128.stream_encryptor(rng, &key, src).unwrap();
    let mut out = Vec::new();
    let mut buf = vec![0u8; bufsize];
    loop {
        let n = enc.read(&mut buf).unwrap();
        if n == 0 { break; }
        out.extend_from_slice(&buf[..n]);
    }
    out
}
fn drive_rte(src: &[u8]) -> Vec<u8> {
    let rng = rand_chacha::ChaCha8Rng::seed_from_u64(1);
    let key = [7u8; 16];
    let mut enc = SymmetricKeyAlgorithm::AES128.stream_encryptor(rng, &key, src).unwrap();
    let mut out = Vec::new();
    enc.read_to_end(&mut out).unwrap();
    out
}
#[test]
fn empty_source_read_vs_read_to_end() {
    for bs in [1usize, 7, 18, 64] {
        assert_eq!(drive_read(b"", bs), drive_rte(b""), "empty source, consumer buffer {bs}");
    }
}
#[test]
fn nonempty_source_read_vs_read_to_end() {
    for bs in [1usize, 7, 18, 64] {
        assert_eq!(drive_read(b"x", bs), drive_rte(b"x"), "1-octet source, consumer buffer {bs}");
    }
}
