use pgp::composed::{Deserializable, SignedPublicKey};
use pgp::ser::Serialize;

const C: &str = "-----BEGIN PGP PUBLIC KEY BLOCK-----

xioGY4d/4xsAAAAg+U2nu0jWCmHlZ3BqZYfQMxmZu52JGggkLq2EVD34laPCsQYf
GwoAAABCBYJjh3/jAwsJBwUVCg4IDAIWAAKbAwIeCSIhBssYbE8GCaaX5NUt+mxy
KwwfHifBilZwj2Ul7Ce62azJBScJAgcCAAAAAK0oIBA+LX0ifsDm185Ecds2v8lw
gyU2kCcUmKfvBXbAf6rhRYWzuQOwEn7E/aLwIwRaLsdry0+VcallHhSu4RN6HWaE
QsiPlR4zxP/TP7mhfVEe7XWPxtnMUMtf15OyA51YBM4qBmOHf+MZAAAAIIaTJINn
+eUBXbki+PSAld2nhJh/LVmFsS+60WyvXkQ1wpsGGBsKAAAALAWCY4d/4wKbDCIh
BssYbE8GCaaX5NUt+mxyKwwfHifBilZwj2Ul7Ce62azJAAAAAAQBIKbpGG2dWTX8
j+VjFM21J0hqWlEg+bdiojWnKfA5AQpWUWtnNwDEM0g12vYxoWM8Y81W+bHBw805
I8kWVkXU6vFOi+HWvv/ira7ofJu16NnoUkhclkUrk0mXubZvyl4GBg==
-----END PGP PUBLIC KEY BLOCK-----";

/// certificate with a direct-key signature: announced length == bytes written
#[test]
fn cert_with_direct_signature_write_len() {
    let (spk, _) = SignedPublicKey::from_armor_single(std::io::Cursor::new(C)).unwrap();
    assert!(!spk.details.direct_signatures.is_empty());
    let bytes = spk.details.to_bytes().unwrap();
    assert_eq!(spk.details.write_len(), bytes.len(), "SignedKeyDetails::write_len");
    let all = spk.to_bytes().unwrap();
    assert_eq!(spk.write_len(), all.len(), "SignedPublicKey::write_len");
}
