use pgp::composed::{Deserializable, SignedSecretKey, DetachedSignature};
use pgp::packet::{SignatureConfig, SignatureType, Subpacket, SubpacketData};
use pgp::types::{Password, KeyDetails, Timestamp};
use pgp::crypto::hash::HashAlgorithm;

fn key() -> SignedSecretKey {
    let (k, _) = SignedSecretKey::from_armor_single(std::fs::File::open("tests/autocrypt/alice@autocrypt.example.sec.asc").unwrap()).unwrap();
    k
}
fn roundtrip(text: &[u8]) -> bool {
    let k = key();
    let mut cfg = SignatureConfig::v4(SignatureType::Text, k.primary_key.algorithm(), HashAlgorithm::Sha256);
    cfg.hashed_subpackets = vec![
        Subpacket::regular(SubpacketData::SignatureCreationTime(Timestamp::now())).unwrap(),
        Subpacket::regular(SubpacketData::IssuerFingerprint(k.fingerprint())).unwrap(),
    ];
    let sig = cfg.sign(&k.primary_key, &Password::empty(), text).unwrap();
    sig.verify(&k.primary_key.public_key(), text).is_ok()
}
#[test]
fn text_sig_trailing_cr() {
    assert!(roundtrip(b"abc\n"));
    assert!(roundtrip(b"abc\r"), "text ending in a lone CR: sign and verify disagree");
}
#[test]
fn detached_text_trailing_cr() {
    let k = key();
    let text = b"abc\r";
    let sig = DetachedSignature::sign_text_data(rand::thread_rng(), &k.primary_key, &Password::empty(), HashAlgorithm::Sha256, &text[..]).unwrap();
    assert!(sig.verify(&k.primary_key.public_key(), &text[..]).is_ok());
}
