//! A session key packet whose decrypted content is empty must be refused with an error, not a panic.
use pgp::composed::{EncryptionCaps, KeyType, SecretKeyParamsBuilder};

use pgp::types::{DecryptionKey, EskType, Mpi, Password, PkeskBytes, PublicParams, KeyDetails};
use rand::SeedableRng;

#[test]
fn pkesk_v3_rsa_with_empty_plaintext_is_an_error_not_a_panic() {
    let mut rng = rand_chacha::ChaCha8Rng::seed_from_u64(7);
    let params = SecretKeyParamsBuilder::default()
        .key_type(KeyType::Rsa(2048))
        .can_encrypt(EncryptionCaps::All)
        .primary_user_id("x <x@example.org>".into())
        .build()
        .unwrap();
    let key = params.generate(&mut rng).unwrap();
    let PublicParams::RSA(pp) = key.public_params() else { panic!("rsa expected") };
    // attacker: PKCS#1 v1.5 encryption of the empty string to the recipient's public key
    let c = pp.key.encrypt(&mut rng, rsa::Pkcs1v15Encrypt, b"").unwrap();
    let values = PkeskBytes::Rsa { mpi: Mpi::from_slice(&c) };
    let res = std::panic::catch_unwind(std::panic::AssertUnwindSafe(|| {
        key.decrypt(&Password::empty(), &values, EskType::V3_4)
    }));
    assert!(res.is_ok(), "decrypting a PKESK with empty session-key plaintext panicked");
    let inner = res.unwrap();
    assert!(matches!(inner, Ok(Err(_)) | Err(_)), "empty session-key plaintext accepted");
}

#[test]
fn skesk_v4_without_encrypted_key_is_an_error_not_a_panic() {
    use pgp::packet::{Packet, PacketParser};
    // new-format tag 3, length 4: version 4, AES128, simple S2K (type 0) with SHA-256, no encrypted key
    let bytes = [0xC3u8, 0x04, 0x04, 0x07, 0x00, 0x08];
    let pkt = PacketParser::new(&bytes[..]).next().expect("one packet").expect("parses");
    let Packet::SymKeyEncryptedSessionKey(skesk) = pkt else { panic!("not an skesk") };
    let key = [7u8; 16];
    let res = std::panic::catch_unwind(std::panic::AssertUnwindSafe(|| skesk.decrypt(&key[..])));
    assert!(res.is_ok(), "SymKeyEncryptedSessionKey::decrypt panicked on a v4 packet without encrypted key");
    assert!(res.unwrap().is_err(), "nothing to decrypt, yet a session key came out");
}
