use std::io::Read;
use pgp::armor::{self, BlockType, Dearmor, DearmorOptions};

#[test]
fn dearmor_crc_check_accepts_valid_crc() {
    struct Raw(Vec<u8>);
    impl pgp::ser::Serialize for Raw {
        fn to_writer<W: std::io::Write>(&self, w: &mut W) -> pgp::errors::Result<()> { w.write_all(&self.0)?; Ok(()) }
        fn write_len(&self) -> usize { self.0.len() }
    }
    let data = Raw(b"hello world, this is data".to_vec());
    let mut out = Vec::new();
    armor::write(&data, BlockType::Message, &mut out, None, true).unwrap();
    let s = String::from_utf8(out).unwrap();
    assert!(s.contains("\n="), "checksum line present: {s}");
    let mut dec = Dearmor::with_options(std::io::BufReader::new(s.as_bytes()), DearmorOptions::default().enable_crc24_check());
    let mut res = Vec::new();
    let r = dec.read_to_end(&mut res);
    assert!(r.is_ok(), "valid CRC rejected: {:?} status {:?}", r, dec.crc24_status());
    assert_eq!(res, data.0);
}
