use pgp::crypto::public_key::PublicKeyAlgorithm;
use pgp::types::{KeyVersion, PublicParams, SecretParams};

/// secret-key material with S2K usage octet 255 (checksummed CFB): usage octet must survive parse -> serialise
#[test]
fn s2k_usage_255_roundtrips() {
    // usage 255, AES128, S2K simple/SHA256, 16-byte IV, 6 bytes of encrypted data
    let mut body = vec![255u8, 7, 0, 8];
    body.extend_from_slice(&[0x11; 16]);
    body.extend_from_slice(&[1, 2, 3, 4, 5, 6]);
    let pp = PublicParams::Unknown { data: Default::default() };
    let sp = SecretParams::from_slice(&body, KeyVersion::V4, PublicKeyAlgorithm::Private100, &pp).unwrap();
    assert_eq!(sp.string_to_key_id(), 255, "usage octet 255 must be kept");
    let mut out = Vec::new();
    sp.to_writer(&mut out, KeyVersion::V4).unwrap();
    assert_eq!(out, body, "canonical input must re-serialise identically");
    assert_eq!(sp.write_len(KeyVersion::V4), out.len());
    assert!(!sp.has_sha1_checksum());
}
