//! An ECDH PKESK whose wrapped session key field is shorter than one key-wrap block must be refused with an
//! error, not a panic.
use pgp::crypto::{ecc_curve::ECCCurve, hash::HashAlgorithm, sym::SymmetricKeyAlgorithm};

#[test]
fn aes_key_unwrap_of_short_input_is_an_error() {
    for n in 0..8 {
        let data = vec![0x5au8; n];
        let r = std::panic::catch_unwind(|| pgp::crypto::aes_kw::unwrap(&[7u8; 16], &data).is_err());
        assert_eq!(r.ok(), Some(true), "aes_kw::unwrap on {n} octets");
    }
}

/// the step every ECDH PKESK decryption goes through after the shared secret is known: the wrapped key is the
/// attacker's `encrypted session key` field
#[test]
fn ecdh_session_key_derivation_with_short_wrapped_key_is_an_error_not_a_panic() {
    for n in 0..8 {
        let wrapped = vec![0x5au8; n];
        let res = std::panic::catch_unwind(|| {
            pgp::crypto::ecdh::derive_session_key(
                &[1u8; 32],
                &wrapped,
                wrapped.len(),
                ECCCurve::Curve25519Legacy,
                HashAlgorithm::Sha256,
                SymmetricKeyAlgorithm::AES128,
                &[0u8; 20],
            )
            .is_err()
        });
        assert_eq!(res.ok(), Some(true), "{n}-octet wrapped key");
    }
}
