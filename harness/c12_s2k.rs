// C12: S2K key derivation (RFC 9580 3.7.1.1-3.7.1.3): for round n (n-th block of key material) a fresh hash
// context is preloaded with n zero octets, then fed salt || password (iterated: repeated up to the decoded
// octet count, at least once); the key is the concatenation of the digests, truncated.
// The hash is the transcript recorder (kani::stub of HashAlgorithm::new_hasher); its "digest" starts with
// the transcript length and the first 14 transcript octets, which is what ends up in each key block.
#![allow(unused, dead_code, unsafe_code)]
use digest::DynDigest;

use super::__verif_common::*;
use crate::crypto::hash::HashAlgorithm;
use crate::types::StringToKey;

pub fn stub_new_hasher(alg: HashAlgorithm) -> core::result::Result<Box<dyn DynDigest + Send>, crate::crypto::hash::Error> {
    Ok(Box::new(Rec::<2>::default()))
}
macro_rules! kproof {
    ($name:ident, $uw:expr, $body:block) => {
        #[kani::proof]
        #[kani::unwind($uw)]
        #[kani::stub(std::fmt::format, crate::__verif_common::stub_format)]
        #[kani::stub(snafu::backtrace_collection_enabled, crate::__verif_common::stub_bt)]
        #[kani::stub(crate::crypto::hash::HashAlgorithm::new_hasher, stub_new_hasher)]
        fn $name() $body
    };
}

/// KIND 0 simple, 1 salted, 3 iterated (coded count `CC`); SHA-1 (20-octet digest), 32-octet key => two rounds
fn derive_case<const KIND: u8, const CC: u8, const TOTAL: usize>() {
    let salt: [u8; 8] = kani::any();
    let pw: [u8; 2] = kani::any();
    let s2k = match KIND {
        0 => StringToKey::Simple { hash_alg: HashAlgorithm::Sha1 },
        1 => StringToKey::Salted { hash_alg: HashAlgorithm::Sha1, salt },
        _ => StringToKey::IteratedAndSalted { hash_alg: HashAlgorithm::Sha1, salt, count: CC },
    };
    match okf(s2k.derive_key(&pw[..], 32)) {
        None => assert!(false, "C12: S2K derivation failed"),
        Some(key) => {
            let k: &[u8] = key.as_ref();
            assert!(k.len() == 32, "C12: derived key size");
            // reference transcripts of round 0 and round 1
            let mut r = 0;
            while r < 2 {
                let mut exp = Pack::<2>::default();
                if r == 1 {
                    exp.push1(0);
                }
                // TOTAL = number of (salt || password) octets hashed per round
                let unit = if KIND == 0 { 2 } else { 10 };
                let mut done = 0usize;
                while done < TOTAL {
                    let pos = done % unit;
                    let b = if KIND == 0 { pw[pos] } else if pos < 8 { salt[pos] } else { pw[pos - 8] };
                    exp.push1(b);
                    done += 1;
                }
                let d = exp.to_bytes();
                // block r of the key = first min(20, 32 - 20 r) octets of digest r
                let n = if r == 0 { 20 } else { 12 };
                let mut i = 0;
                while i < 20 {
                    if i < n {
                        assert!(k[20 * r + i] == d[i], "C12: S2K hash input stream differs from RFC 9580 3.7.1 (zero preload / salt / password / count)");
                    }
                    i += 1;
                }
                core::mem::forget(d);
                r += 1;
            }
            core::mem::forget(key);
        }
    }
}
kproof!(c12_s2k_simple_2rounds, 24, { derive_case::<0, 0, 2>() });
kproof!(c12_s2k_salted_2rounds, 24, { derive_case::<1, 0, 10>() });
// coded count 0 => 1024 octets per round
kproof!(c12_s2k_iterated_c0, 1030, { derive_case::<3, 0, 1024>() });
