// C12: ECDH session-key padding (RFC 9580 11.5 / RFC 6637 8: PKCS5-style, block size 8): for every
// plaintext length the padded length is the next multiple of 8 *strictly* greater than... i.e. 1..=8 padding
// octets, each holding the padding length.  Child module of crypto/ecdh.rs (`pad` is private).
#![allow(unused, dead_code, unsafe_code)]
use super::*;
use crate::__verif_common::*;

fn pad_case<const L: usize>() {
    let plain: [u8; L] = kani::any();
    let out = pad(&plain[..]);
    let n = 8 - (L % 8); // 1..=8
    assert!(out.len() == L + n, "C12: ECDH padding must add 1..=8 octets up to a multiple of 8 (a full block when already aligned)");
    assert!(out.len() % 8 == 0);
    let mut i = 0;
    while i < L + 8 {
        if i < L {
            assert!(out[i] == plain[i], "C12: ECDH padding changed the session key octets");
        } else if i < L + n {
            assert!(out[i] == n as u8, "C12: ECDH padding octets must equal the padding length");
        }
        i += 1;
    }
    core::mem::forget(out);
}
vproof!(c12_ecdh_pad_0, 12, { pad_case::<0>() });
vproof!(c12_ecdh_pad_1, 12, { pad_case::<1>() });
vproof!(c12_ecdh_pad_7, 18, { pad_case::<7>() });
vproof!(c12_ecdh_pad_8, 20, { pad_case::<8>() });
vproof!(c12_ecdh_pad_9, 20, { pad_case::<9>() });
vproof!(c12_ecdh_pad_16, 28, { pad_case::<16>() });
vproof!(c12_ecdh_pad_19, 30, { pad_case::<19>() });

// ---- UNREGISTERED PROBE (timeout 600 s: symbolic pad length drives Vec::truncate and a slice iterator) ------
// ---- C04: unpadding of attacker-chosen key-wrap plaintext --------------------------------------------------
// derive_session_key with the KDF and the AES key unwrap modelled (unwrap returns N ARBITRARY octets: what a
// sender who knows the recipient's public key can make the unwrapped value be): never a panic; Ok only for a
// well-formed PKCS5 tail, and then exactly the octets before it.
static mut UNWRAPPED: [u8; 16] = [0u8; 16];
static mut UNWRAPPED_LEN: usize = 0;
pub fn stub_kdf(_hash: HashAlgorithm, _x: &[u8], length: usize, _param: &[u8]) -> Result<Vec<u8>> {
    Ok(vec![7u8; length])
}
pub fn stub_unwrap(_key: &[u8], _data: &[u8]) -> core::result::Result<zeroize::Zeroizing<Vec<u8>>, crate::crypto::aes_kw::Error> {
    #[allow(static_mut_refs)]
    let v = unsafe { UNWRAPPED[..UNWRAPPED_LEN].to_vec() };
    Ok(zeroize::Zeroizing::new(v))
}

fn unpad_case<const N: usize>() {
    let plain: [u8; N] = kani::any();
    #[allow(static_mut_refs)]
    unsafe {
        let mut i = 0;
        while i < N {
            UNWRAPPED[i] = plain[i];
            i += 1;
        }
        UNWRAPPED_LEN = N;
    }
    let wrapped = [0u8; 24];
    let fpr = [0u8; 20];
    let shared = [1u8; 32];
    let r = okf(derive_session_key(&shared[..], &wrapped[..N + 8], N + 8, ECCCurve::Curve25519Legacy, HashAlgorithm::Sha256, SymmetricKeyAlgorithm::AES128, &fpr[..]));
    // reference: last octet p in 1..=N, the last p octets all equal p, at least one octet left
    let p = if N > 0 { plain[N - 1] as usize } else { 0 };
    let mut tail_ok = N > 0 && N % 8 == 0 && p <= N;
    let mut j = 0;
    while j < N {
        if tail_ok && j >= N - p {
            tail_ok = plain[j] as usize == p;
        }
        j += 1;
    }
    let good = tail_ok && p < N;
    kani::cover!(r.is_some(), "maybe: a well-formed padding is accepted");
    match r {
        None => assert!(!good, "C12/C04: well-formed ECDH session-key padding refused"),
        Some(k) => {
            assert!(good, "C04: malformed ECDH session-key padding accepted");
            assert!(k.len() == N - p, "C12: unpadded ECDH session key has the wrong length");
            if N - p > 0 {
                assert!(k[0] == plain[0], "C12: unpadded ECDH session key is not the prefix of the unwrapped octets");
            }
            core::mem::forget(k);
        }
    }
}
macro_rules! eproof {
    ($name:ident, $n:expr) => {
        #[kani::proof]
        #[kani::unwind(20)]
        #[kani::stub(std::fmt::format, crate::__verif_common::stub_format)]
        #[kani::stub(snafu::backtrace_collection_enabled, crate::__verif_common::stub_bt)]
        #[kani::stub(crate::crypto::ecdh::kdf, stub_kdf)]
        #[kani::stub(crate::crypto::aes_kw::unwrap, stub_unwrap)]
        fn $name() {
            unpad_case::<$n>()
        }
    };
}
eproof!(c04_ecdh_unpad_8, 8);
eproof!(c04_ecdh_unpad_16, 16);
