// C12: ECDH session-key padding (RFC 9580 11.5 / RFC 6637 8: PKCS5-style, block size 8): for every
// plaintext length the padded length is the next multiple of 8 *strictly* greater than... i.e. 1..=8 padding
// octets, each holding the padding length.  Child module of crypto/ecdh.rs (`pad` is private).
#![allow(unused, dead_code)]
use super::*;
use crate::__verif_common::*;

fn pad_case<const L: usize>() {
    let plain: [u8; L] = kani::any();
    let out = pad(&plain[..]);
    let n = 8 - (L % 8); // 1..=8
    assert!(out.len() == L + n, "C12: ECDH padding must add 1..=8 octets up to a multiple of 8 (a full block when already aligned)");
    assert!(out.len() % 8 == 0);
    let mut i = 0;
    while i < L + 8 {
        if i < L {
            assert!(out[i] == plain[i], "C12: ECDH padding changed the session key octets");
        } else if i < L + n {
            assert!(out[i] == n as u8, "C12: ECDH padding octets must equal the padding length");
        }
        i += 1;
    }
    core::mem::forget(out);
}
vproof!(c12_ecdh_pad_0, 12, { pad_case::<0>() });
vproof!(c12_ecdh_pad_1, 12, { pad_case::<1>() });
vproof!(c12_ecdh_pad_7, 18, { pad_case::<7>() });
vproof!(c12_ecdh_pad_8, 20, { pad_case::<8>() });
vproof!(c12_ecdh_pad_9, 20, { pad_case::<9>() });
vproof!(c12_ecdh_pad_16, 28, { pad_case::<16>() });
vproof!(c12_ecdh_pad_19, 30, { pad_case::<19>() });
