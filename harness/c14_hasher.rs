// C14 (a): NormalizingHasher — one inductive step from an arbitrary reachable pre-state.
// Oracle: byte-at-a-time transducer "LF not preceded by CR -> CRLF, everything else unchanged".
#![allow(unused, dead_code)]
use digest::DynDigest;

use super::__verif_common::*;
use crate::util::NormalizingHasher;

/// reference: appends canonical form of `data`; `prev_cr` = previous byte was CR.
pub(crate) fn ref_canon<const K: usize>(data: &[u8], mut prev_cr: bool, exp: &mut Pack<K>) {
    let mut i = 0;
    while i < data.len() {
        let c = data[i];
        if c == b'\n' && !prev_cr {
            exp.push1(b'\r');
        }
        exp.push1(c);
        prev_cr = c == b'\r';
        i += 1;
    }
}

/// pre-state in {fresh, after a chunk ending in CR}; one chunk of L arbitrary bytes; then done().
/// The complete transcript (including whatever done() adds) must equal the reference.
fn step_done<const L: usize>() {
    let data: [u8; L] = kani::any();
    let pre: bool = kani::any();
    let mut h = NormalizingHasher::new(Box::new(Rec::<1>::default()), true);
    let mut exp = Pack::<1>::default();
    if pre {
        h.hash_buf(b"\r");
        exp.push1(b'\r');
    }
    h.hash_buf(&data[..]);
    ref_canon(&data[..], pre, &mut exp);
    let out = h.done().finalize();
    let got = Pack::<1>::from_bytes(&out);
    kani::cover!(pre && L > 0 && data[0] == b'\n', "maybe: CR | LF split across chunks");
    kani::cover!(L > 0 && data[L - 1] == b'\r', "maybe: chunk ends in CR");
    assert!(got.len == exp.len, "C14 hasher: canonical length differs from reference");
    assert!(got.same(&exp), "C14 hasher: canonical bytes differ from reference");
}

/// two consecutive chunks (state carried across the cut), then done()
fn two_steps<const A: usize, const B: usize>() {
    let a: [u8; A] = kani::any();
    let b: [u8; B] = kani::any();
    let mut h = NormalizingHasher::new(Box::new(Rec::<1>::default()), true);
    h.hash_buf(&a[..]);
    h.hash_buf(&b[..]);
    let mut exp = Pack::<1>::default();
    ref_canon(&a[..], false, &mut exp);
    let prev = A > 0 && a[A - 1] == b'\r';
    ref_canon(&b[..], prev, &mut exp);
    let out = h.done().finalize();
    let got = Pack::<1>::from_bytes(&out);
    assert!(got.len == exp.len, "C14 hasher(2 chunks): canonical length differs");
    assert!(got.same(&exp), "C14 hasher(2 chunks): canonical bytes differ");
}

/// binary mode is the identity
fn binary_step<const L: usize>() {
    let data: [u8; L] = kani::any();
    let mut h = NormalizingHasher::new(Box::new(Rec::<1>::default()), false);
    h.hash_buf(&data[..]);
    let out = h.done().finalize();
    let got = Pack::<1>::from_bytes(&out);
    let mut exp = Pack::<1>::default();
    exp.push(&data[..]);
    assert!(got.same(&exp), "C14 hasher: binary mode is not the identity");
}

macro_rules! step {
    ($name:ident, $l:expr, $uw:expr) => {
        #[kani::proof]
        #[kani::unwind($uw)]
        fn $name() {
            step_done::<$l>()
        }
    };
}
step!(c14_hasher_step_0, 0, 3);
step!(c14_hasher_step_1, 1, 3);
step!(c14_hasher_step_2, 2, 4);
step!(c14_hasher_step_3, 3, 5);
step!(c14_hasher_step_4, 4, 6);
step!(c14_hasher_step_5, 5, 7);
step!(c14_hasher_step_6, 6, 8);

#[kani::proof]
#[kani::unwind(5)]
fn c14_hasher_two_1_2() {
    two_steps::<1, 2>()
}
#[kani::proof]
#[kani::unwind(5)]
fn c14_hasher_two_2_1() {
    two_steps::<2, 1>()
}
#[kani::proof]
#[kani::unwind(6)]
fn c14_hasher_two_2_2() {
    two_steps::<2, 2>()
}
#[kani::proof]
#[kani::unwind(5)]
fn c14_hasher_binary_3() {
    binary_step::<3>()
}
