// C10 (writer side): the checksum the armor writer emits is the RFC 9580 6.1 CRC-24 of the data, and the
// body is canonical base64 — against a bitwise CRC and a table-free base64 reference.
#![allow(unused, dead_code)]
use std::hash::Hasher;
use std::io::Write;

use crc24::Crc24Hasher;

use crate::__verif_common::*;
use crate::armor::BlockType;
use crate::ser::Serialize;

/// RFC 9580 6.1.1 reference implementation (bit by bit)
fn ref_crc24(data: &[u8]) -> u32 {
    let mut crc: u32 = 0xB704CE;
    let mut i = 0;
    while i < data.len() {
        crc ^= (data[i] as u32) << 16;
        let mut k = 0;
        while k < 8 {
            crc <<= 1;
            if crc & 0x1000000 != 0 {
                crc ^= 0x1864CFB;
            }
            k += 1;
        }
        i += 1;
    }
    crc & 0xFFFFFF
}
fn b64(v: u8) -> u8 {
    match v {
        0..=25 => b'A' + v,
        26..=51 => b'a' + (v - 26),
        52..=61 => b'0' + (v - 52),
        62 => b'+',
        _ => b'/',
    }
}

/// table-driven hasher used by the writer == bitwise reference, for every data of L octets
fn crc_case<const L: usize>() {
    let data: [u8; L] = kani::any();
    let mut h = Crc24Hasher::new();
    h.write(&data[..]);
    assert!(h.finish() as u32 == ref_crc24(&data[..]), "C10: CRC-24 differs from the RFC 9580 6.1.1 algorithm");
}
vproof!(c10_crc24_0, 10, { crc_case::<0>() });
vproof!(c10_crc24_1, 10, { crc_case::<1>() });
vproof!(c10_crc24_2, 10, { crc_case::<2>() });
vproof!(c10_crc24_3, 10, { crc_case::<3>() });

/// chunked updates give the same CRC (the writer feeds the hasher through TeeWriter in pieces)
vproof!(c10_crc24_split_2_1, 10, {
    let data: [u8; 3] = kani::any();
    let mut h = Crc24Hasher::new();
    h.write(&data[..2]);
    h.write(&data[2..]);
    assert!(h.finish() as u32 == ref_crc24(&data[..]), "C10/C09: CRC-24 depends on how the data is chunked");
});

