// C17 / C05: packet length and header codecs against an independent RFC 9580 section 4.2 reference.
// Full width: every u32 length, every tag, both header formats.  No loops in the code under test.
#![allow(unused, dead_code)]
use super::__verif_common::*;
use crate::packet::PacketHeader;
use crate::ser::Serialize;
use crate::types::{PacketHeaderVersion, PacketLength, Tag};

// ---- independent reference (written from RFC 9580 4.2.1) ----
fn ref_new_len(len: u32, out: &mut [u8; 5]) -> usize {
    if len <= 191 {
        out[0] = len as u8;
        1
    } else if len <= 8383 {
        let v = len - 192;
        out[0] = (v / 256) as u8 + 192;
        out[1] = (v % 256) as u8;
        2
    } else {
        out[0] = 255;
        let b = len.to_be_bytes();
        out[1] = b[0];
        out[2] = b[1];
        out[3] = b[2];
        out[4] = b[3];
        5
    }
}
/// decode of a new-format length: (kind 0 fixed / 1 partial, value, octets consumed)
fn ref_new_len_dec(b: &[u8; 5]) -> (u8, u32, usize) {
    let o = b[0] as u32;
    if o < 192 {
        (0, o, 1)
    } else if o < 224 {
        (0, (o - 192) * 256 + b[1] as u32 + 192, 2)
    } else if o < 255 {
        (1, 1u32 << (o & 0x1f), 1)
    } else {
        (0, u32::from_be_bytes([b[1], b[2], b[3], b[4]]), 5)
    }
}
fn ref_old_len(len: u32, out: &mut [u8; 4]) -> (u8, usize) {
    if len <= 0xff {
        out[0] = len as u8;
        (0, 1)
    } else if len <= 0xffff {
        out[0] = (len >> 8) as u8;
        out[1] = len as u8;
        (1, 2)
    } else {
        let b = len.to_be_bytes();
        out[0] = b[0];
        out[1] = b[1];
        out[2] = b[2];
        out[3] = b[3];
        (2, 4)
    }
}

fn eq_prefix(a: &[u8], b: &[u8], n: usize) -> bool {
    let mut ok = a.len() >= n && b.len() >= n;
    let mut i = 0;
    while i < 8 {
        if i < n && ok && a[i] != b[i] {
            ok = false;
        }
        i += 1;
    }
    ok
}

/// PacketLength::Fixed(len): writer == reference; fixed_encoding_len == bytes written; parse inverts.
#[kani::proof]
#[kani::unwind(10)]
#[kani::stub(std::fmt::format, stub_format)]
#[kani::stub(snafu::backtrace_collection_enabled, stub_bt)]
fn c17_len_fixed_roundtrip() {
    let len: u32 = kani::any();
    let mut w = FixW::<8>::new();
    assert!(is_okf(PacketLength::Fixed(len).to_writer_new(&mut w)), "C17: writing a fixed length failed");
    let mut exp = [0u8; 5];
    let n = ref_new_len(len, &mut exp);
    kani::cover!(len == 191);
    kani::cover!(len == 192);
    kani::cover!(len == 8383);
    kani::cover!(len == 8384);
    assert!(w.len == n, "C17: fixed length encoding has the wrong size class");
    assert!(eq_prefix(&w.buf, &exp, n), "C17: fixed length encoding differs from RFC 9580 4.2.1");
    assert!(PacketLength::fixed_encoding_len(len) == n, "C17/C05: fixed_encoding_len is not the number of octets written");
    let mut rd = &w.buf[..w.len];
    match okf(PacketLength::try_from_reader(&mut rd)) {
        Some(p) => {
            assert!(p == PacketLength::Fixed(len), "C17: length does not parse back");
            assert!(rd.is_empty(), "C17: length parser consumed the wrong number of octets");
        }
        None => assert!(false, "C17: written length is rejected by the parser"),
    }
}

/// Partial(2^e), e in 0..=30
#[kani::proof]
#[kani::unwind(10)]
#[kani::stub(std::fmt::format, stub_format)]
#[kani::stub(snafu::backtrace_collection_enabled, stub_bt)]
fn c17_len_partial_roundtrip() {
    let e: u32 = kani::any();
    kani::assume(e <= 30);
    let mut w = FixW::<8>::new();
    assert!(is_okf(PacketLength::Partial(1u32 << e).to_writer_new(&mut w)));
    assert!(w.len == 1 && w.buf[0] as u32 == 224 + e, "C17: partial length octet is not 224+log2(len)");
    let mut rd = &w.buf[..1];
    match okf(PacketLength::try_from_reader(&mut rd)) {
        Some(p) => assert!(p == PacketLength::Partial(1u32 << e), "C17: partial length does not parse back"),
        None => assert!(false),
    }
}

/// every 5-octet string: parser == reference decoder, consumes exactly the reference count
#[kani::proof]
#[kani::unwind(10)]
#[kani::stub(std::fmt::format, stub_format)]
#[kani::stub(snafu::backtrace_collection_enabled, stub_bt)]
fn c17_len_parse_total() {
    let b: [u8; 5] = kani::any();
    let (kind, val, used) = ref_new_len_dec(&b);
    let mut rd = &b[..];
    match okf(PacketLength::try_from_reader(&mut rd)) {
        Some(p) => {
            kani::cover!(kind == 1);
            kani::cover!(used == 2);
            kani::cover!(used == 5);
            if kind == 0 {
                assert!(p == PacketLength::Fixed(val), "C17: parsed fixed length differs from RFC decode");
            } else {
                assert!(p == PacketLength::Partial(val), "C17: parsed partial length differs from RFC decode");
            }
            assert!(5 - rd.len() == used, "C17: length parser consumed a wrong number of octets");
        }
        None => assert!(false, "C17: 5 octets always suffice for a length"),
    }
}

/// truncated length fields are errors, never a shorter value
#[kani::proof]
#[kani::unwind(10)]
#[kani::stub(std::fmt::format, stub_format)]
#[kani::stub(snafu::backtrace_collection_enabled, stub_bt)]
fn c17_len_parse_truncated() {
    let b: [u8; 5] = kani::any();
    let cut: usize = kani::any();
    kani::assume(cut <= 4);
    let (_kind, _val, used) = ref_new_len_dec(&b);
    let mut rd = &b[..cut];
    let ok = is_okf(PacketLength::try_from_reader(&mut rd));
    kani::cover!(cut < used && cut > 0);
    if cut < used {
        assert!(!ok, "C17: truncated length field accepted");
    } else {
        assert!(ok);
    }
}

/// new-format header: write_header == reference; header_len; from_parts+to_writer+write_len agree; parse inverts
#[kani::proof]
#[kani::unwind(10)]
#[kani::stub(std::fmt::format, stub_format)]
#[kani::stub(snafu::backtrace_collection_enabled, stub_bt)]
fn c17_header_new_roundtrip() {
    let tagv: u8 = kani::any();
    kani::assume(tagv < 64);
    let len: u32 = kani::any();
    let tag = Tag::from(tagv);
    assert!(u8::from(tag) == tagv, "C05: Tag <-> u8 conversion is not the identity");
    let mut exp = [0u8; 8];
    exp[0] = 0xC0 | tagv;
    let mut l5 = [0u8; 5];
    let n = 1 + ref_new_len(len, &mut l5);
    let mut i = 0;
    while i < 5 {
        exp[1 + i] = l5[i];
        i += 1;
    }
    // (1) PacketHeaderVersion::write_header
    let mut w = FixW::<8>::new();
    assert!(is_okf(PacketHeaderVersion::New.write_header(&mut w, tag, len as usize)));
    assert!(w.len == n && eq_prefix(&w.buf, &exp, n), "C17: write_header(New) differs from RFC 9580 4.2");
    assert!(PacketHeaderVersion::New.header_len(len as usize) == n, "C05: header_len(New) is not the number of octets written");
    // (2) PacketHeader::from_parts / to_writer / write_len
    match okf(PacketHeader::from_parts(PacketHeaderVersion::New, tag, PacketLength::Fixed(len))) {
        Some(h) => {
            let mut w2 = FixW::<8>::new();
            assert!(is_okf(h.to_writer(&mut w2)));
            assert!(w2.len == n && eq_prefix(&w2.buf, &exp, n), "C17: PacketHeader::to_writer(New) differs from RFC");
            assert!(h.write_len() == n, "C05: PacketHeader::write_len(New) is not the number of octets written");
            assert!(h.tag() == tag && h.packet_length() == PacketLength::Fixed(len));
            match okf(PacketHeader::try_from_reader(&w2.buf[..w2.len])) {
                Some(h2) => assert!(h2 == h, "C05: new-format header does not parse back to an equal value"),
                None => assert!(false, "C17: written new-format header rejected"),
            }
        }
        None => assert!(false, "C17: from_parts(New, Fixed) must succeed"),
    }
}

/// old-format header (tags 0..15)
#[kani::proof]
#[kani::unwind(10)]
#[kani::stub(std::fmt::format, stub_format)]
#[kani::stub(snafu::backtrace_collection_enabled, stub_bt)]
fn c17_header_old_roundtrip() {
    let tagv: u8 = kani::any();
    kani::assume(tagv < 16);
    let len: u32 = kani::any();
    let tag = Tag::from(tagv);
    let mut exp = [0u8; 8];
    let mut l4 = [0u8; 4];
    let (lt, ln) = ref_old_len(len, &mut l4);
    exp[0] = 0x80 | (tagv << 2) | lt;
    let mut i = 0;
    while i < 4 {
        exp[1 + i] = l4[i];
        i += 1;
    }
    let n = 1 + ln;
    kani::cover!(len == 255);
    kani::cover!(len == 256);
    kani::cover!(len == 65535);
    kani::cover!(len == 65536);
    let mut w = FixW::<8>::new();
    assert!(is_okf(PacketHeaderVersion::Old.write_header(&mut w, tag, len as usize)));
    assert!(w.len == n && eq_prefix(&w.buf, &exp, n), "C17: write_header(Old) differs from RFC 9580 4.2.2");
    assert!(PacketHeaderVersion::Old.header_len(len as usize) == n, "C05: header_len(Old) is not the number of octets written");
    match okf(PacketHeader::from_parts(PacketHeaderVersion::Old, tag, PacketLength::Fixed(len))) {
        Some(h) => {
            let mut w2 = FixW::<8>::new();
            assert!(is_okf(h.to_writer(&mut w2)));
            assert!(w2.len == n && eq_prefix(&w2.buf, &exp, n), "C17: PacketHeader::to_writer(Old) differs from RFC");
            assert!(h.write_len() == n, "C05: PacketHeader::write_len(Old) is not the number of octets written");
            assert!(h.tag() == tag && h.packet_length() == PacketLength::Fixed(len));
            match okf(PacketHeader::try_from_reader(&w2.buf[..w2.len])) {
                Some(h2) => assert!(h2 == h, "C05: old-format header does not parse back to an equal value"),
                None => assert!(false, "C17: written old-format header rejected"),
            }
        }
        None => assert!(false, "C17: from_parts(Old, Fixed) must succeed for tags < 16"),
    }
}

/// arbitrary 6 octets: parser agrees with the RFC decode of format, tag, length kind/value and size;
/// re-serialisation parses back to an equal header; canonical inputs re-serialise identically.
#[kani::proof]
#[kani::unwind(10)]
#[kani::stub(std::fmt::format, stub_format)]
#[kani::stub(snafu::backtrace_collection_enabled, stub_bt)]
fn c17_header_parse_total() {
    let b: [u8; 6] = kani::any();
    let mut rd = &b[..];
    let r = okf(PacketHeader::try_from_reader(&mut rd));
    let used = 6 - rd.len();
    if b[0] & 0x80 == 0 {
        assert!(r.is_none(), "C17: header octet without bit 7 accepted");
        return;
    }
    match r {
        None => assert!(false, "C17: 6 octets always suffice for a header"),
        Some(h) => {
            if b[0] & 0x40 != 0 {
                // OpenPGP format
                let l5 = [b[1], b[2], b[3], b[4], b[5]];
                let (kind, val, n) = ref_new_len_dec(&l5);
                assert!(h.version() == PacketHeaderVersion::New);
                assert!(u8::from(h.tag()) == b[0] & 0x3f, "C17: tag of new-format header");
                let want = if kind == 0 { PacketLength::Fixed(val) } else { PacketLength::Partial(val) };
                assert!(h.packet_length() == want, "C17: length of new-format header differs from RFC decode");
                assert!(used == 1 + n, "C17: header parser consumed a wrong number of octets");
                let mut w = FixW::<8>::new();
                assert!(is_okf(h.to_writer(&mut w)));
                assert!(w.len == h.write_len(), "C05: write_len != octets written (new)");
                match okf(PacketHeader::try_from_reader(&w.buf[..w.len])) {
                    Some(h2) => assert!(h2 == h, "C05: re-serialised header parses to a different value"),
                    None => assert!(false),
                }
                // canonical = shortest encoding
                let mut c5 = [0u8; 5];
                let canonical = kind == 1 || (ref_new_len(val, &mut c5) == n);
                kani::cover!(!canonical);
                if canonical {
                    assert!(w.len == used && eq_prefix(&w.buf, &b, used), "C05: canonical header does not re-serialise identically");
                }
            } else {
                let lt = b[0] & 3;
                assert!(h.version() == PacketHeaderVersion::Old);
                assert!(u8::from(h.tag()) == (b[0] >> 2) & 0xf, "C17: tag of old-format header");
                let (want, n) = match lt {
                    0 => (PacketLength::Fixed(b[1] as u32), 1),
                    1 => (PacketLength::Fixed(((b[1] as u32) << 8) | b[2] as u32), 2),
                    2 => (PacketLength::Fixed(u32::from_be_bytes([b[1], b[2], b[3], b[4]])), 4),
                    _ => (PacketLength::Indeterminate, 0),
                };
                kani::cover!(lt == 3);
                assert!(h.packet_length() == want, "C17: length of old-format header differs from RFC decode");
                assert!(used == 1 + n, "C17: header parser consumed a wrong number of octets (old)");
                let mut w = FixW::<8>::new();
                assert!(is_okf(h.to_writer(&mut w)));
                assert!(w.len == h.write_len(), "C05: write_len != octets written (old)");
                // old-format writer always picks the size class from the value; canonical iff class matches
                let canonical = match (lt, want) {
                    (0, _) => true,
                    (1, PacketLength::Fixed(v)) => v > 0xff,
                    (2, PacketLength::Fixed(v)) => v > 0xffff,
                    _ => true,
                };
                if canonical {
                    assert!(w.len == used && eq_prefix(&w.buf, &b, used), "C05: canonical old header does not re-serialise identically");
                }
            }
        }
    }
}

/// illegal combinations are refused by the constructor
#[kani::proof]
#[kani::unwind(10)]
#[kani::stub(std::fmt::format, stub_format)]
#[kani::stub(snafu::backtrace_collection_enabled, stub_bt)]
fn c17_header_from_parts_rules() {
    let tagv: u8 = kani::any();
    kani::assume(tagv < 64);
    let tag = Tag::from(tagv);
    let v: u32 = kani::any();
    // partial on legacy header
    assert!(!is_okf(PacketHeader::from_parts(PacketHeaderVersion::Old, tag, PacketLength::Partial(v))),
            "C17: partial length accepted for legacy header");
    // indeterminate on new header
    assert!(!is_okf(PacketHeader::from_parts(PacketHeaderVersion::New, tag, PacketLength::Indeterminate)),
            "C17: indeterminate length accepted for OpenPGP-format header");
    // partial: power of two and <= 2^30
    let r = okf(PacketHeader::from_parts(PacketHeaderVersion::New, tag, PacketLength::Partial(v)));
    let legal = v.count_ones() == 1 && v <= (1u32 << 30);
    kani::cover!(legal);
    kani::cover!(v == 1u32 << 31);
    assert!(r.is_some() == legal, "C17: partial length legality rule (power of two, <= 2^30)");
    // legacy headers cannot carry tags >= 16
    let r = okf(PacketHeader::from_parts(PacketHeaderVersion::Old, tag, PacketLength::Fixed(v)));
    assert!(r.is_some() == (tagv < 16), "C17: legacy header tag range");
    if let Some(h) = r {
        assert!(u8::from(h.tag()) == tagv);
    }
}

/// the length query used when a packet is re-serialised: Some(len) for fixed and partial, None only for indeterminate
#[kani::proof]
#[kani::unwind(4)]
fn c17_maybe_len() {
    let v: u32 = kani::any();
    assert!(PacketLength::Fixed(v).maybe_len() == Some(v));
    assert!(PacketLength::Partial(v).maybe_len() == Some(v), "C17: a partial length must report its value (re-serialisation treats None as indeterminate)");
    assert!(PacketLength::Indeterminate.maybe_len().is_none());
}
