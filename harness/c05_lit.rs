// C05 / C01: the literal data packet header (mode octet, file name, date) - parse then serialise is the identity
// on every wire string of the given shape, write_len is truthful, and nothing of the header leaks into the body.
// Mode octet concrete per instance (b / t / u / m / other), name length concrete (0, 2), contents symbolic.
#![allow(unused, dead_code)]
use super::__verif_common::*;
use crate::packet::LiteralDataHeader;
use crate::ser::Serialize;

fn header_case<const MODE: u8, const NAME: usize>() {
    let name: [u8; 2] = kani::any();
    let date: [u8; 4] = kani::any();
    let mut wire = [0u8; 10];
    wire[0] = MODE;
    wire[1] = NAME as u8;
    let mut k = 2;
    if NAME == 2 {
        wire[2] = name[0];
        wire[3] = name[1];
        k = 4;
    }
    wire[k] = date[0];
    wire[k + 1] = date[1];
    wire[k + 2] = date[2];
    wire[k + 3] = date[3];
    wire[k + 4] = 0x99; // first body octet: must stay unread
    let total = k + 4;
    let mut src = &wire[..total + 1];
    match okf(LiteralDataHeader::try_from_reader(&mut src)) {
        None => assert!(false, "C05: well-formed literal data header refused"),
        Some(h) => {
            let h = core::mem::ManuallyDrop::new(h);
            assert!(src.len() == 1 && src[0] == 0x99, "C01/C05: literal header parser consumed body octets (or too few)");
            assert!(h.write_len() == total, "C05: literal header write_len");
            let mut w = FixW::<12>::new();
            assert!(is_okf(h.to_writer(&mut w)));
            assert!(w.len == total, "C05: literal header octets written != write_len");
            let mut i = 0;
            let mut same = true;
            while i < 10 {
                if i < total {
                    same = same && w.buf[i] == wire[i];
                }
                i += 1;
            }
            assert!(same, "C05: literal header does not re-serialise to the octets it was parsed from");
        }
    }
}
vproof!(c05_literal_header_b_0, 12, { header_case::<0x62, 0>() });
vproof!(c05_literal_header_u_2, 12, { header_case::<0x75, 2>() });
vproof!(c05_literal_header_t_2, 12, { header_case::<0x74, 2>() });
vproof!(c05_literal_header_other_2, 12, { header_case::<0x01, 2>() });

/// a truncated header (name length says 2, source ends inside name or date) is an error, never a shorter header
fn header_truncated<const AVAIL: usize>() {
    let b: [u8; 6] = kani::any();
    let wire = [0x62u8, 2, b[0], b[1], b[2], b[3], b[4], b[5]];
    let r = is_okf(LiteralDataHeader::try_from_reader(&wire[..AVAIL]));
    assert!(!r, "C05/C09: truncated literal data header accepted");
}
vproof!(c05_literal_header_trunc_3, 12, { header_truncated::<3>() });
vproof!(c05_literal_header_trunc_7, 12, { header_truncated::<7>() });
