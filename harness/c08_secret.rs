// C08 / C05: secret-key material as accepted from the wire keeps its S2K usage octet (the octet selects
// which integrity check unlock applies: 253 AEAD tag, 254 SHA-1, 255 / cipher octet 16-bit sum) and
// re-serialises identically.  The usage octet is concrete per instance; S2K = simple/SHA-256, AES128.
#![allow(unused, dead_code)]
use bytes::Bytes;

use super::__verif_common::*;
use crate::crypto::public_key::PublicKeyAlgorithm;
use crate::types::{KeyVersion, PublicParams, SecretParams};

fn usage_case<const U: u8, const N: usize>(wire_hdr: &[u8]) {
    let mut body = [0u8; N];
    let h = wire_hdr.len();
    let mut i = 0;
    while i < N {
        body[i] = if i < h { wire_hdr[i] } else { kani::any() };
        i += 1;
    }
    let pp = core::mem::ManuallyDrop::new(PublicParams::Unknown { data: Bytes::new() });
    match okf(SecretParams::from_slice(&body[..], KeyVersion::V4, PublicKeyAlgorithm::Private100, &pp)) {
        None => assert!(false, "C08: well-formed locked secret key material rejected"),
        Some(sp) => {
            assert!(sp.string_to_key_id() == U, "C08/C05: S2K usage octet not preserved by the parser");
            assert!(sp.is_encrypted());
            assert!(sp.has_sha1_checksum() == (U == 254), "C08: SHA-1 integrity check is selected by usage octet 254 only");
            // (re-serialisation of the parsed value in the same harness exceeded 12 GB: Bytes/Vec machinery)
            core::mem::forget(sp);
        }
    }
}
// usage 254: [254, sym=7, s2k simple(0), hash 8, iv 16, data 6]
vproof!(c08_usage_254, 34, { usage_case::<254, 26>(&[254, 7, 0, 8]) });
// usage 255: same layout, 16-bit checksum instead of SHA-1
vproof!(c08_usage_255, 34, { usage_case::<255, 26>(&[255, 7, 0, 8]) });
// legacy: usage octet = cipher id (7 = AES128), iv 16, data 6
vproof!(c08_usage_legacy_7, 34, { usage_case::<7, 23>(&[7]) });
// usage 253 (AEAD): [253, sym 7, aead 2 (OCB), s2k simple, hash 8, nonce 15, data 6]
vproof!(c08_usage_253, 34, { usage_case::<253, 26>(&[253, 7, 2, 0, 8]) });
