// C10/C09 (reader side, first stage): Base64Reader::read over a source delivered in two arbitrary chunks
// returns exactly the base64 tokens of the input with CR/LF skipped, stops at the first foreign octet, and
// consumes the same prefix of the source however the source is fragmented (child of src/base64/reader.rs).
#![allow(unused, dead_code)]
use std::io::{BufRead, Read};

use super::*;
use crate::__verif_common::*;

/// BufRead over two slices: hands out the rest of `a`, then the rest of `b` (an arbitrary fragmentation point)
struct TwoChunk<'a> {
    a: &'a [u8],
    b: &'a [u8],
}
impl Read for TwoChunk<'_> {
    fn read(&mut self, _into: &mut [u8]) -> std::io::Result<usize> {
        Ok(0)
    }
}
impl BufRead for TwoChunk<'_> {
    fn fill_buf(&mut self) -> std::io::Result<&[u8]> {
        if !self.a.is_empty() {
            Ok(self.a)
        } else {
            Ok(self.b)
        }
    }
    fn consume(&mut self, n: usize) {
        if !self.a.is_empty() {
            self.a = &self.a[n..];
        } else {
            self.b = &self.b[n..];
        }
    }
}

fn ref_token(c: u8) -> bool {
    matches!(c, b'A'..=b'Z' | b'a'..=b'z' | b'0'..=b'9' | b'+' | b'/' | b'=')
}

/// N source octets (all values), split point k (all values), destination of M octets
fn b64_case<const N: usize, const M: usize>() {
    let data: [u8; N] = kani::any();
    let k: usize = kani::any();
    kani::assume(k <= N);
    let mut rd = Base64Reader::new(TwoChunk { a: &data[..k], b: &data[k..] });
    let mut into = [0u8; M];
    let got = okf(rd.read(&mut into[..]));
    // reference: one pass over the unfragmented input
    let mut exp = [0u8; M];
    let mut n = 0;
    let mut pos = 0; // octets the reader must have consumed
    let mut i = 0;
    while i < N && n < M {
        let c = data[i];
        if c == b'\r' || c == b'\n' {
            i += 1;
            pos = i;
            continue;
        }
        if !ref_token(c) {
            break;
        }
        exp[n] = c;
        n += 1;
        i += 1;
        pos = i;
    }
    kani::cover!(k > 0 && k < N && data[k - 1] == b'\r' && data[k] == b'\n', "maybe: CR | LF straddling the fragmentation point");
    match got {
        None => assert!(false, "C10/C09 Base64Reader: error on an in-memory source"),
        Some(g) => {
            assert!(g == n, "C10/C09 Base64Reader: number of tokens returned differs from the unfragmented reference");
            let mut j = 0;
            while j < M {
                if j < n {
                    assert!(into[j] == exp[j], "C10/C09 Base64Reader: token bytes differ from the unfragmented reference");
                }
                j += 1;
            }
            let src = rd.into_inner();
            let left = src.a.len() + src.b.len();
            if n < M {
                // stopped at a foreign octet or at the end: everything before it is consumed, nothing after
                assert!(left == N - pos, "C10/C09 Base64Reader: consumed prefix depends on the fragmentation");
            } else {
                // destination full: at least the tokens handed out are consumed, never beyond the line breaks that follow
                assert!(left <= N - pos, "C10/C09 Base64Reader: tokens returned but not consumed");
            }
        }
    }
}
vproof!(c10_b64reader_2_2, 5, { b64_case::<2, 2>() });
vproof!(c10_b64reader_3_3, 6, { b64_case::<3, 3>() });
vproof!(c10_b64reader_4_2, 7, { b64_case::<4, 2>() });
vproof!(c10_b64reader_4_4, 7, { b64_case::<4, 4>() });
vproof!(c10_b64reader_5_4, 8, { b64_case::<5, 4>() });
vproof!(c10_b64reader_6_6, 9, { b64_case::<6, 6>() });
vproof!(c10_b64reader_8_4, 11, { b64_case::<8, 4>() });
