// C09: armor writer body (base64 encoder -> 64-column line writer -> sink): an error of the sink surfaces as an
// error of write_body, wherever it happens - including the final flush of the last partial quantum / line.
// Child module of src/armor/writer.rs (write_body is private).
#![allow(unused, dead_code)]
use std::io::Write;

use super::*;
use crate::__verif_common::*;

/// sink that fails at its k-th write call (and records that it did)
struct FailSink {
    calls: usize,
    fail_at: usize,
    failed: bool,
    taken: usize,
}
impl Write for FailSink {
    fn write(&mut self, buf: &[u8]) -> std::io::Result<usize> {
        if self.calls == self.fail_at {
            self.failed = true;
            self.calls += 1;
            return Err(std::io::Error::from(std::io::ErrorKind::Other));
        }
        self.calls += 1;
        self.taken += buf.len();
        Ok(buf.len())
    }
    fn flush(&mut self) -> std::io::Result<()> {
        Ok(())
    }
}

/// N arbitrary octets as a Serialize source
struct Raw<const N: usize>([u8; N]);
impl<const N: usize> crate::ser::Serialize for Raw<N> {
    fn to_writer<W: Write>(&self, w: &mut W) -> crate::errors::Result<()> {
        w.write_all(&self.0[..])?;
        Ok(())
    }
    fn write_len(&self) -> usize {
        N
    }
}

fn body_fault<const N: usize, const FAIL_AT: usize>() {
    let src = Raw::<N>(kani::any());
    let fail_at: usize = FAIL_AT; // concrete per instance: a symbolic fault point makes io::Error's drop glue explode
    let mut sink = FailSink { calls: 0, fail_at, failed: false, taken: 0 };
    let ok = is_okf(write_body(&mut sink, &src, None));
    kani::cover!(sink.failed, "the sink failed");
    assert!(!(sink.failed && ok), "C09: armor writer: a sink error during the body (incl. the final flush) is reported as success");
    if !sink.failed {
        assert!(ok, "C09: armor writer body failed although the sink never did");
        // base64 of N octets + one line break
        assert!(sink.taken == (N + 2) / 3 * 4 + 1, "C10: armored body length is not ceil(N/3)*4 + line break");
    }
}
vproof!(c09_armor_body_fault_1, 68, { body_fault::<1, 0>() });
vproof!(c09_armor_body_fault_3, 68, { body_fault::<3, 0>() });
vproof!(c09_armor_body_nofault_3, 68, { body_fault::<3, 9>() });
