#![allow(unused, dead_code)]
use bytes::Bytes;
use super::__verif_common::*;
use crate::ser::Serialize;
use crate::types::StringToKey;

vproof!(q1_parse_only, 6, {
    let b: [u8; 2] = kani::any();
    let mut rd = &b[..];
    let r = okf(StringToKey::try_from_reader(&mut rd));
    if let Some(s) = r { assert!(s.id() == b[0]); core::mem::forget(s); }
});
vproof!(q2_parse_write, 6, {
    let b: [u8; 2] = kani::any();
    let mut rd = &b[..];
    let r = okf(StringToKey::try_from_reader(&mut rd));
    if let Some(s) = r {
        let mut w = FixW::<24>::new();
        assert!(is_okf(s.to_writer(&mut w)));
        assert!(w.len == s.write_len());
        core::mem::forget(s);
    }
});
vproof!(q3_parse_write_simple_only, 6, {
    let b: [u8; 2] = kani::any();
    kani::assume(b[0] == 0);
    let mut rd = &b[..];
    let r = okf(StringToKey::try_from_reader(&mut rd));
    if let Some(s) = r {
        let mut w = FixW::<24>::new();
        assert!(is_okf(s.to_writer(&mut w)));
        assert!(w.len == s.write_len());
        core::mem::forget(s);
    }
});
