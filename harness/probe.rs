#![allow(unused, dead_code)]
use bytes::Bytes;
use super::__verif_common::*;
use crate::packet::{Subpacket, SubpacketData, SubpacketLength};
use crate::ser::Serialize;
use crate::types::{Timestamp, KeyId};

fn spin(n: usize) -> usize { let mut i = 0; let mut s = 0; while i < 3 { s += n; i += 1; } s }
fn arm(d: &SubpacketData) -> usize {
    match d {
        SubpacketData::SignatureCreationTime(_) => 1,
        SubpacketData::Notation(n) => spin(2),
        SubpacketData::EmbeddedSignature(_) => spin(3),
        SubpacketData::PolicyURI(s) => spin(s.len()),
        _ => spin(4),
    }
}
vproof!(p1_match_direct, 5, {
    let t: u32 = kani::any();
    let d = SubpacketData::SignatureCreationTime(Timestamp::from_secs(t));
    assert!(arm(&d) == 1);
    core::mem::forget(d);
});
vproof!(p2_match_in_subpacket, 5, {
    let t: u32 = kani::any();
    let sp = Subpacket { is_critical: false, data: SubpacketData::SignatureCreationTime(Timestamp::from_secs(t)), len: SubpacketLength::One(5) };
    assert!(arm(&sp.data) == 1);
    core::mem::forget(sp);
});
vproof!(p3_write_len, 5, {
    let t: u32 = kani::any();
    let d = SubpacketData::SignatureCreationTime(Timestamp::from_secs(t));
    assert!(d.write_len() == 4);
    core::mem::forget(d);
});
