// C05: small wire codecs — SubpacketLength, StringToKey, Mpi — parse/serialise inverse, truthful
// write_len, canonical identity.  Inputs are arbitrary byte arrays of fixed length.
#![allow(unused, dead_code)]
use super::__verif_common::*;
use crate::packet::SubpacketLength;
use crate::ser::Serialize;
use crate::types::{Mpi, StringToKey};

fn eq_n(a: &[u8], b: &[u8], n: usize) -> bool {
    let mut ok = a.len() >= n && b.len() >= n;
    macro_rules! at {
        ($i:expr) => {
            if ok && $i < n && a[$i] != b[$i] {
                ok = false;
            }
        };
    }
    at!(0);
    at!(1);
    at!(2);
    at!(3);
    at!(4);
    at!(5);
    at!(6);
    at!(7);
    at!(8);
    at!(9);
    at!(10);
    at!(11);
    at!(12);
    at!(13);
    at!(14);
    at!(15);
    at!(16);
    at!(17);
    at!(18);
    at!(19);
    at!(20);
    at!(21);
    at!(22);
    at!(23);
    ok && n <= 24
}

// ---- SubpacketLength (RFC 9580 5.2.3.7) ----
fn ref_sp_len_dec(b: &[u8; 5]) -> (u32, usize) {
    let o = b[0] as u32;
    if o < 192 {
        (o, 1)
    } else if o < 255 {
        ((o - 192) * 256 + b[1] as u32 + 192, 2)
    } else {
        (u32::from_be_bytes([b[1], b[2], b[3], b[4]]), 5)
    }
}
vproof!(c05_subpacket_len_parse_total, 8, {
    let b: [u8; 5] = kani::any();
    let (val, used) = ref_sp_len_dec(&b);
    let mut rd = &b[..];
    match okf(SubpacketLength::try_from_reader(&mut rd)) {
        None => assert!(false, "C05: 5 octets always suffice for a subpacket length"),
        Some(l) => {
            assert!(l.len() == val as usize, "C05: subpacket length value differs from RFC decode");
            assert!(5 - rd.len() == used, "C05: subpacket length parser consumed a wrong number of octets");
            let mut w = FixW::<8>::new();
            assert!(is_okf(l.to_writer(&mut w)));
            assert!(w.len == l.write_len(), "C05: SubpacketLength::write_len != octets written");
            assert!(w.len == used && eq_n(&w.buf, &b, used), "C05: subpacket length does not re-serialise identically");
            kani::cover!(used == 2);
            kani::cover!(used == 5);
        }
    }
});
vproof!(c05_subpacket_len_encode, 8, {
    let v: u32 = kani::any();
    let l = SubpacketLength::encode(v);
    assert!(l.len() == v as usize, "C05: SubpacketLength::encode loses the value");
    let mut w = FixW::<8>::new();
    assert!(is_okf(l.to_writer(&mut w)));
    assert!(w.len == l.write_len());
    // minimal encoding classes of the RFC
    let want = if v < 192 { 1 } else if v <= 16319 { 2 } else { 5 };
    kani::cover!(v == 191);
    kani::cover!(v == 192);
    kani::cover!(v == 16319);
    kani::cover!(v == 16320);
    assert!(w.len == want, "C05: SubpacketLength::encode is not the minimal RFC encoding");
    let mut rd = &w.buf[..];
    match okf(SubpacketLength::try_from_reader(&mut rd)) {
        Some(l2) => assert!(l2 == l, "C05: encoded subpacket length does not parse back"),
        None => assert!(false),
    }
});

// ---- StringToKey specifier (RFC 9580 3.7.1) ----
/// S2K specifier with type octet T (concrete per instance: CBMC merges the parser's arms into a symbolic
/// variant otherwise and then explores every arm of the serialiser) followed by N-1 arbitrary octets:
/// parse; re-serialise == the consumed prefix; write_len truthful; parses back equal.
fn s2k_case<const T: u8, const N: usize>() {
    let mut b: [u8; N] = kani::any();
    b[0] = T;
    let mut rd = &b[..];
    let r = okf(StringToKey::try_from_reader(&mut rd));
    let used = N - rd.len();
    // sizes fixed by the RFC for the known types
    let need = match T {
        0 => 2,
        1 => 10,
        3 => 11,
        4 => 20,
        _ => N, // reserved / private / unknown types swallow the rest
    };
    match r {
        None => assert!(N < need, "C05: S2K specifier with enough octets rejected"),
        Some(s) => {
            assert!(N >= need, "C05: truncated S2K specifier accepted");
            assert!(used == need, "C05: S2K parser consumed a wrong number of octets");
            assert!(s.id() == T, "C05: S2K type octet not preserved");
            let mut w = FixW::<24>::new();
            assert!(is_okf(s.to_writer(&mut w)), "C05: serialising a parsed S2K failed");
            assert!(w.len == s.write_len(), "C05: StringToKey::write_len != octets written");
            assert!(w.len == used && eq_n(&w.buf, &b, used), "C05: S2K specifier does not re-serialise identically");
            match okf(StringToKey::try_from_reader(&w.buf[..used])) {
                Some(s2) => assert!(s2 == s, "C05: S2K specifier does not parse back to an equal value"),
                None => assert!(false, "C05: serialised S2K rejected"),
            }
            core::mem::forget(s);
        }
    }
}
vproof!(c05_s2k_simple, 6, { s2k_case::<0, 2>() });
vproof!(c05_s2k_simple_trunc, 6, { s2k_case::<0, 1>() });
vproof!(c05_s2k_salted, 11, { s2k_case::<1, 10>() });
vproof!(c05_s2k_salted_trunc, 11, { s2k_case::<1, 9>() });
vproof!(c05_s2k_iterated, 11, { s2k_case::<3, 11>() });
vproof!(c05_s2k_iterated_trunc, 11, { s2k_case::<3, 10>() });
vproof!(c05_s2k_argon2, 19, { s2k_case::<4, 20>() });
vproof!(c05_s2k_argon2_trunc, 19, { s2k_case::<4, 19>() });
vproof!(c05_s2k_reserved, 6, { s2k_case::<2, 4>() });
vproof!(c05_s2k_private_100, 6, { s2k_case::<100, 4>() });
vproof!(c05_s2k_private_110, 6, { s2k_case::<110, 3>() });
vproof!(c05_s2k_other_111, 6, { s2k_case::<111, 3>() });
vproof!(c05_s2k_other_5, 6, { s2k_case::<5, 4>() });
vproof!(c05_s2k_other_255, 6, { s2k_case::<255, 2>() });

// ---- MPI (RFC 9580 3.2) ----
/// 2-octet bit count BITS (concrete per instance) + arbitrary magnitude octets, total N octets.
fn mpi_case<const BITS: u16, const N: usize>() {
    let mut b: [u8; N] = kani::any();
    b[0] = (BITS >> 8) as u8;
    b[1] = BITS as u8;
    let bits = BITS;
    let nbytes = ((bits as usize) + 7) / 8;
    let mut rd = &b[..];
    let r = okf(Mpi::try_from_reader(&mut rd));
    let used = N - rd.len();
    match r {
        None => assert!(2 + nbytes > N, "C05: MPI with enough octets rejected"),
        Some(m) => {
            assert!(2 + nbytes <= N, "C05: truncated MPI accepted");
            assert!(used == 2 + nbytes, "C05: MPI parser consumed a wrong number of octets");
            // value = magnitude without leading zero octets
            let mut z = 0;
            macro_rules! lead {
                ($i:expr) => {
                    if z == $i && $i < nbytes && b[2 + $i] == 0 {
                        z += 1;
                    }
                };
            }
            lead!(0);
            lead!(1);
            lead!(2);
            lead!(3);
            assert!(m.len() == nbytes - z, "C05: MPI magnitude is not the input without leading zero octets");
            assert!(eq_n(m.as_ref(), &b[2 + z..], nbytes - z), "C05: MPI magnitude bytes changed");
            let mut w = FixW::<8>::new();
            assert!(is_okf(m.to_writer(&mut w)));
            assert!(w.len == m.write_len(), "C05: Mpi::write_len != octets written");
            // announced bit length is exact
            if m.len() > 0 {
                let top = m.as_ref()[0];
                let want_bits = (m.len() * 8) as u16 - top.leading_zeros() as u16;
                assert!(u16::from_be_bytes([w.buf[0], w.buf[1]]) == want_bits, "C05: serialised MPI bit count is not the exact bit length");
            } else {
                assert!(w.buf[0] == 0 && w.buf[1] == 0);
            }
            // canonical input (exact bit count) re-serialises identically
            let canonical = if nbytes == 0 {
                true
            } else {
                b[2] != 0 && bits == (nbytes * 8) as u16 - b[2].leading_zeros() as u16
            };
            if canonical {
                assert!(w.len == used && eq_n(&w.buf, &b, used), "C05: canonical MPI does not re-serialise identically");
            }
            // (parse(ser(m)) == m follows: ser(m) is canonical, and canonical inputs are shown to parse to
            // their own magnitude; a second parse + Bytes equality in the same harness exceeded 12 GB)
            core::mem::forget(m);
        }
    }
}
vproof!(c05_mpi_bits0, 8, { mpi_case::<0, 3>() });
vproof!(c05_mpi_bits1, 8, { mpi_case::<1, 4>() });
vproof!(c05_mpi_bits8, 8, { mpi_case::<8, 4>() });
vproof!(c05_mpi_bits9, 8, { mpi_case::<9, 4>() });
vproof!(c05_mpi_bits16, 8, { mpi_case::<16, 5>() });
vproof!(c05_mpi_bits17, 8, { mpi_case::<17, 5>() });
vproof!(c05_mpi_bits17_trunc, 8, { mpi_case::<17, 4>() });
vproof!(c05_mpi_bits32, 8, { mpi_case::<32, 6>() });
vproof!(c05_mpi_bits16385, 8, { mpi_case::<16385, 4>() });

/// Mpi::from_slice strips leading zeros and serialises with the exact bit length
vproof!(c05_mpi_from_slice_3, 8, {
    // (Vec -> Bytes conversion inside from_slice: heavier than the parser path)
    let v: [u8; 3] = kani::any();
    let m = Mpi::from_slice(&v[..]);
    let z = if v[0] != 0 { 0 } else if v[1] != 0 { 1 } else if v[2] != 0 { 2 } else { 3 };
    assert!(m.len() == 3 - z, "C05/C07: Mpi::from_slice must strip exactly the leading zero octets");
    let mut w = FixW::<8>::new();
    assert!(is_okf(m.to_writer(&mut w)));
    assert!(w.len == m.write_len() && w.len == 2 + 3 - z);
    assert!(eq_n(&w.buf[2..], &v[z..], 3 - z), "C05/C07: Mpi::from_slice changed the magnitude");
    if z < 3 {
        let want_bits = ((3 - z) * 8) as u16 - v[z].leading_zeros() as u16;
        assert!(u16::from_be_bytes([w.buf[0], w.buf[1]]) == want_bits, "C05/C07: Mpi::from_slice bit count");
    }
    core::mem::forget(m);
});
