// C17 (reader): PacketBodyReader over partial-body framings.  Child module of packet_body.rs, checked in a
// *scaled* copy: BUFFER_SIZE 8 KiB -> 8 and the "first partial chunk >= 512" rule -> ">= 4" (run.py
// substitutions for this property), so that legal framings fit into a few octets.  The state machine
// (first chunk, continuation chunks, final fixed chunk, short bodies, illegal tags) is unchanged.
#![allow(unused, dead_code)]
use std::io::Read;

use super::*;
use crate::__verif_common::*;

/// reads the body to its end; returns (octets read, clean end?) and leaves the reader in `rd`
fn drain<R: BufRead>(rd: &mut PacketBodyReader<R>, out: &mut [u8; 16]) -> (usize, bool) {
    let mut n = 0;
    let mut calls = 0;
    loop {
        match okf(rd.read(&mut out[n..])) {
            None => return (n, false),
            Some(0) => return (n, true),
            Some(k) => n += k,
        }
        calls += 1;
        if calls > 8 {
            assert!(false, "C17/C19: reader does not terminate within the expected number of reads");
            return (n, false);
        }
    }
}

/// [P4][4 octets][P2][2 octets][F1][1 octet] + one trailing octet that belongs to the next packet
vproof!(c17_reader_partial_4_2_1, 10, {
    assert!(BUFFER_SIZE == 8, "scaled build expected");
    let b: [u8; 7] = kani::any();
    let stream = [0xCB, 0xE2, b[0], b[1], b[2], b[3], 0xE1, b[4], b[5], 0x01, b[6], 0x77];
    let mut src = &stream[..];
    let hdr = match okf(PacketHeader::try_from_reader(&mut src)) {
        Some(h) => h,
        None => {
            assert!(false);
            return;
        }
    };
    match okf(PacketBodyReader::new(hdr, src)) {
        None => assert!(false, "C17: legal partial framing (first chunk at the minimum size) rejected"),
        Some(mut rd) => {
            let mut out = [0u8; 16];
            let (n, clean) = drain(&mut rd, &mut out);
            assert!(clean, "C17: legal partial framing ends in an error");
            assert!(n == 7, "C17: body length differs from the sum of the chunk lengths");
            assert!(out[0] == b[0] && out[3] == b[3] && out[4] == b[4] && out[5] == b[5] && out[6] == b[6], "C17: body octets mis-split across partial chunks");
            let rest = rd.into_inner();
            assert!(rest.len() == 1 && rest[0] == 0x77, "C17: source not positioned exactly after the final chunk");
        }
    }
});

/// final chunk of length zero: [P4][4 octets][F0]
vproof!(c17_reader_partial_4_0, 10, {
    let b: [u8; 4] = kani::any();
    let stream = [0xCB, 0xE2, b[0], b[1], b[2], b[3], 0x00, 0x77];
    let mut src = &stream[..];
    let hdr = match okf(PacketHeader::try_from_reader(&mut src)) {
        Some(h) => h,
        None => return,
    };
    match okf(PacketBodyReader::new(hdr, src)) {
        None => assert!(false, "C17: partial framing with empty final chunk rejected"),
        Some(mut rd) => {
            let mut out = [0u8; 16];
            let (n, clean) = drain(&mut rd, &mut out);
            assert!(clean && n == 4, "C17: partial framing with empty final chunk mis-read");
            assert!(out[0] == b[0] && out[3] == b[3]);
            let rest = rd.into_inner();
            assert!(rest.len() == 1 && rest[0] == 0x77, "C17: source not positioned after the empty final chunk");
        }
    }
});

/// first partial chunk below the minimum (scaled: 2 < 4) and partial lengths on a non-data tag are refused
vproof!(c17_reader_illegal_first, 10, {
    let tag: u8 = kani::any();
    kani::assume(tag < 64);
    let e: u8 = kani::any();
    kani::assume(e <= 3);
    let stream = [0xC0 | tag, 0xE0 | e, 1, 2, 3, 4, 5, 6, 7, 8, 0x00];
    let mut src = &stream[..];
    let hdr = match okf(PacketHeader::try_from_reader(&mut src)) {
        Some(h) => h,
        None => return,
    };
    let data_tag = tag == 8 || tag == 9 || tag == 11 || tag == 18 || tag == 20;
    let ok = is_okf(PacketBodyReader::new(hdr, src));
    kani::cover!(ok);
    assert!(ok == (data_tag && e >= 2), "C17: partial first chunk accepted/refused against the rule (data packets only, first chunk >= minimum)");
});

/// bodies shorter than declared are errors, never a silently shorter body: fixed length 5 over 0..=5 octets
vproof!(c17_reader_fixed_short, 10, {
    let b: [u8; 5] = kani::any();
    let avail: usize = kani::any();
    kani::assume(avail <= 5);
    let stream = [0xCB, 0x05, b[0], b[1], b[2], b[3], b[4]];
    let mut src = &stream[..2 + avail];
    let hdr = match okf(PacketHeader::try_from_reader(&mut src)) {
        Some(h) => h,
        None => return,
    };
    match okf(PacketBodyReader::new(hdr, src)) {
        None => assert!(false),
        Some(mut rd) => {
            let mut out = [0u8; 16];
            let (n, clean) = drain(&mut rd, &mut out);
            kani::cover!(avail == 3);
            assert!(clean == (avail == 5), "C17: fixed-length body shorter than declared ended cleanly (or a complete one errored)");
            if clean {
                assert!(n == 5 && out[0] == b[0] && out[4] == b[4]);
            }
            core::mem::forget(rd);
        }
    }
});

/// partial chunk shorter than declared: [P4][only k < 4 octets] then EOF
vproof!(c17_reader_partial_short, 10, {
    let b: [u8; 4] = kani::any();
    let avail: usize = kani::any();
    kani::assume(avail <= 3);
    let stream = [0xCB, 0xE2, b[0], b[1], b[2], b[3]];
    let mut src = &stream[..2 + avail];
    let hdr = match okf(PacketHeader::try_from_reader(&mut src)) {
        Some(h) => h,
        None => return,
    };
    match okf(PacketBodyReader::new(hdr, src)) {
        None => assert!(false),
        Some(mut rd) => {
            let mut out = [0u8; 16];
            let (_n, clean) = drain(&mut rd, &mut out);
            assert!(!clean, "C17: truncated partial chunk ended in a clean end-of-body");
            core::mem::forget(rd);
        }
    }
});

// ---- UNREGISTERED PROBES (all four time out at 900 s): one step of the state machine, state built directly ----
/// a partial chunk has just been used up; the source continues with `hdr` (a new-format length octet) and data.
/// `fill_inner` must accept ANY power-of-two continuation chunk (the >= 512 rule is for the first chunk only),
/// hand out exactly the chunk's octets and leave the source right behind them.
fn step_after_partial<const HDR: u8, const LEN: usize>() {
    assert!(BUFFER_SIZE == 8, "scaled build expected");
    let d: [u8; 3] = kani::any();
    let stream = [HDR, d[0], d[1], d[2], 0x00, 0x77];
    let src = &stream[..];
    let mut rd = core::mem::ManuallyDrop::new(PacketBodyReader {
        packet_header: PacketHeader::new_fixed(Tag::LiteralData, 0),
        state: State::Body { buffer: BytesMut::with_capacity(BUFFER_SIZE), source: LimitedReader::Partial(std::io::Read::take(src, 0)) },
    });
    let ok = is_okf(rd.fill_inner());
    assert!(ok, "C17: a continuation chunk after a partial chunk was refused");
    match &mut rd.state {
        State::Body { buffer, source } => {
            assert!(buffer.len() == LEN, "C17: continuation chunk: wrong number of octets handed out");
            let mut i = 0;
            while i < 3 {
                if i < LEN {
                    assert!(buffer[i] == d[i], "C17: continuation chunk: body octets differ from the source");
                }
                i += 1;
            }
            let rest = source.get_mut();
            assert!(rest.len() == 5 - LEN, "C17: source not positioned right behind the chunk");
        }
        State::Done { source } => {
            assert!(LEN == 0, "C17: body ended although the chunk has octets");
            assert!(source.len() == 5, "C17: source not positioned behind the empty final chunk");
        }
        State::Error => assert!(false, "C17: reader in error state after a legal continuation"),
    }
}
// continuation partial chunks of 1 and 2 octets (0xE0 = 2^0, 0xE1 = 2^1), final fixed chunks of 0..3 octets
vproof!(c17_reader_step_partial_1, 10, { step_after_partial::<0xE0, 1>() });
vproof!(c17_reader_step_partial_2, 10, { step_after_partial::<0xE1, 2>() });
vproof!(c17_reader_step_fixed_0, 10, { step_after_partial::<0x00, 0>() });
vproof!(c17_reader_step_fixed_3, 10, { step_after_partial::<0x03, 3>() });
