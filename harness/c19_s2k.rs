// C19: password-based key derivation refuses Argon2 parameter sets beyond the documented cost ceiling
// (t <= 32, p <= 32, memory <= 2 GiB) *before* the primitive is invoked.  Argon2 itself is replaced by a
// stub that records that it was reached; f32::log2 (libm, not modelled by CBMC) by an integer model.
#![allow(unused, dead_code, unsafe_code, static_mut_refs)]
use super::__verif_common::*;
use crate::types::StringToKey;

pub static mut ARGON_REACHED: bool = false;
pub fn stub_argon_hash<'key>(_a: &argon2::Argon2<'key>, _pwd: &[u8], _salt: &[u8], _out: &mut [u8]) -> argon2::Result<()>
where
    'key: 'key,
{
    unsafe {
        ARGON_REACHED = true;
    }
    Ok(())
}
/// the hash-based S2K arms are not the subject here: keep their digests out of the program
pub fn stub_no_hasher(alg: crate::crypto::hash::HashAlgorithm) -> core::result::Result<Box<dyn digest::DynDigest + Send>, crate::crypto::hash::Error> {
    Err(crate::crypto::hash::Error::Unsupported { alg })
}
/// ceil(log2(p)) for p in 0..=255 as used by the parameter check (exact on these inputs)
pub fn stub_log2(x: f32) -> f32 {
    let v = x as u32;
    let mut r = 0u32;
    let mut k = 0;
    while k < 8 {
        if v > (1u32 << k) {
            r = k + 1;
        }
        k += 1;
    }
    // callers apply ceil(); return the exact value for powers of two, something in (r-1, r] otherwise
    if v == 0 {
        f32::NEG_INFINITY
    } else {
        r as f32
    }
}

#[kani::proof]
#[kani::unwind(12)]
#[kani::stub(std::fmt::format, crate::__verif_common::stub_format)]
#[kani::stub(snafu::backtrace_collection_enabled, crate::__verif_common::stub_bt)]
#[kani::stub(argon2::Argon2::hash_password_into, stub_argon_hash)]
#[kani::stub(f32::log2, stub_log2)]
#[kani::stub(std::arch::x86_64::__cpuid_count, crate::__verif_common::stub_cpuid)]
#[kani::stub(crate::crypto::hash::HashAlgorithm::new_hasher, stub_no_hasher)]
fn c19_argon2_ceiling() {
    let t: u8 = kani::any();
    let p: u8 = kani::any();
    let m_enc: u8 = kani::any();
    let s2k = StringToKey::Argon2 { salt: [9u8; 16], t, p, m_enc };
    let pw = [b'p', b'w'];
    let r = okf(s2k.derive_key(&pw[..], 16));
    let reached = unsafe { ARGON_REACHED };
    kani::cover!(reached, "some parameter set reaches the primitive");
    kani::cover!(!reached && t > 32, "refused for t");
    // `reached` is set by the stub (solver run); natively (replay, no stubs) the KDF really ran iff a key came back
    let ran = reached || r.is_some();
    assert!(!ran || (t <= 32 && p <= 32), "C19: Argon2 invoked with t or p above the documented ceiling (32)");
    assert!(!ran || m_enc <= 21, "C19: Argon2 invoked with more than 2 GiB (2^21 KiB) of memory");
    core::mem::forget(r);
}
