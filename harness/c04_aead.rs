// C04: attacker-chosen SEIPDv2 parameter octets (every value of the cipher, AEAD and chunk-size octets)
// with a session key of the right length: setting up the decryptor returns Ok or Err, never panics.
#![allow(unused, dead_code)]
use super::__verif_common::*;
use crate::crypto::aead::{AeadAlgorithm, ChunkSize, StreamDecryptor};
use crate::crypto::sym::SymmetricKeyAlgorithm;

vproof!(c04_seipdv2_header_octets, 70, {
    let sym: u8 = kani::any();
    let aead: u8 = kani::any();
    let cs: u8 = kani::any();
    let sym_alg = SymmetricKeyAlgorithm::from(sym);
    let aead_alg = AeadAlgorithm::from(aead);
    let chunk = match ChunkSize::try_from(cs) {
        Ok(c) => c,
        Err(e) => {
            core::mem::forget(e);
            return; // rejected by the packet parser (InvalidInput)
        }
    };
    // the reader checks that the session key length matches the cipher before constructing the decryptor
    let key = [0x42u8; 32];
    let ks = sym_alg.key_size();
    kani::assume(ks <= 32);
    let salt = [7u8; 32];
    let data = [0u8; 4];
    kani::cover!(aead == 0, "AEAD octet without nonce size");
    kani::cover!(aead == 2 && sym == 7, "OCB/AES128");
    let r = okf(StreamDecryptor::new_rfc9580(sym_alg, aead_alg, chunk, &salt, &key[..ks], &data[..]));
    if let Some(d) = r {
        assert!(aead >= 1 && aead <= 3, "C15/C04: decryptor constructed for an AEAD id that RFC 9580 does not define");
        core::mem::forget(d);
    }
});
