// C04: attacker-chosen SEIPDv2 parameter octets with a session key of the right length: setting up the
// decryptor returns Ok or Err, never panics.  The AEAD octet is concrete per instance (classes: None=0,
// EAX/OCB/GCM=1..3, Other=4/200, Private=100) — a symbolic enum variant makes CBMC explore every arm;
// cipher octet: AES128/AES256 instances; chunk-size octet symbolic.  SHA-256 compression is a no-op (HKDF value irrelevant).
#![allow(unused, dead_code)]
use super::__verif_common::*;
use crate::crypto::aead::{AeadAlgorithm, ChunkSize, StreamDecryptor};
use crate::crypto::sym::SymmetricKeyAlgorithm;

pub fn stub_compress(_state: &mut [u32; 8], _blocks: &[generic_array::GenericArray<u8, generic_array::typenum::U64>]) {}

macro_rules! hproof {
    ($name:ident, $uw:expr, $body:block) => {
        #[kani::proof]
        #[kani::unwind($uw)]
        #[kani::stub(std::fmt::format, crate::__verif_common::stub_format)]
        #[kani::stub(snafu::backtrace_collection_enabled, crate::__verif_common::stub_bt)]
        #[kani::stub(sha2::sha256::compress256, stub_compress)]
        fn $name() $body
    };
}

fn header_case<const AEAD: u8, const SYM: u8>() {
    let cs: u8 = kani::any();
    let sym_alg = SymmetricKeyAlgorithm::from(SYM);
    let aead_alg = AeadAlgorithm::from(AEAD);
    let chunk = match ChunkSize::try_from(cs) {
        Ok(c) => c,
        Err(e) => {
            core::mem::forget(e);
            return; // rejected by the packet parser (InvalidInput)
        }
    };
    // the reader checks that the session key length matches the cipher before constructing the decryptor
    let key = [0x42u8; 32];
    let ks = sym_alg.key_size();
    let salt = [7u8; 32];
    let data = [0u8; 4];
    let r = okf(StreamDecryptor::new_rfc9580(sym_alg, aead_alg, chunk, &salt, &key[..ks], &data[..]));
    kani::cover!(cs == 16, "largest chunk size");
    match r {
        Some(d) => {
            assert!(AEAD >= 1 && AEAD <= 3, "C15/C04: decryptor constructed for an AEAD id that RFC 9580 does not define");
            core::mem::forget(d);
        }
        None => assert!(!(AEAD >= 1 && AEAD <= 3) , "C01: decryptor refused a defined AEAD mode"),
    }
}
hproof!(c04_seipdv2_aead0, 70, { header_case::<0, 7>() });
hproof!(c04_seipdv2_aead1, 70, { header_case::<1, 7>() });
hproof!(c04_seipdv2_aead2, 70, { header_case::<2, 9>() });
hproof!(c04_seipdv2_aead3, 70, { header_case::<3, 7>() });
hproof!(c04_seipdv2_aead4, 70, { header_case::<4, 7>() });
hproof!(c04_seipdv2_aead100, 70, { header_case::<100, 9>() });
hproof!(c04_seipdv2_aead200, 70, { header_case::<200, 7>() });
