// C03 (SEIPDv2, last step): the final-tag decision of the real AEAD stream decryptor.  The state "all chunks
// processed, only the final tag left" is built directly (child module of src/crypto/aead/decryptor.rs) with a
// SYMBOLIC number of chunks and plaintext octets processed so far; the presented tag is a genuine final tag for a
// possibly different (chunk count, octet count).  decrypt_last must accept iff both agree, i.e. the final tag
// binds nonce = IV || be64(chunk index) and AD = info || be64(total plaintext octets).
// The AEAD primitive is a model under Kani (tag exposes nonce index and AD); the expected tag is produced by
// calling the same primitive, so a native replay runs real AES-GCM on both sides.
#![allow(unused, dead_code)]
use super::*;
use crate::__verif_common::*;

fn model_tag(nonce: &[u8], ad: &[u8]) -> [u8; 16] {
    // 8 octets chunk index || low 8 octets of the AD (for the final tag: the total octet count)
    let mut t = [0u8; 16];
    let n = nonce.len();
    let k = ad.len();
    let mut i = 0;
    while i < 8 {
        t[i] = nonce[n - 8 + i];
        if k >= 8 {
            t[8 + i] = ad[k - 8 + i];
        }
        i += 1;
    }
    t[8] ^= k as u8; // and the AD length
    t
}
pub fn stub_enc(_s: &AeadAlgorithm, _a: &SymmetricKeyAlgorithm, _key: &[u8], nonce: &[u8], ad: &[u8], buffer: &mut BytesMut) -> Result<(), Error> {
    let t = model_tag(nonce, ad);
    buffer.extend_from_slice(&t);
    Ok(())
}
pub fn stub_dec(s: &AeadAlgorithm, _a: &SymmetricKeyAlgorithm, _key: &[u8], nonce: &[u8], ad: &[u8], buffer: &mut BytesMut) -> Result<(), Error> {
    let t = model_tag(nonce, ad);
    let n = buffer.len();
    if n < 16 {
        return Err(Error::Decrypt { alg: *s });
    }
    let mut ok = true;
    let mut i = 0;
    while i < 16 {
        ok = ok && buffer[n - 16 + i] == t[i];
        i += 1;
    }
    if !ok {
        return Err(Error::Decrypt { alg: *s });
    }
    buffer.truncate(n - 16);
    Ok(())
}

fn nonce_for(k: u64) -> Vec<u8> {
    let mut v = vec![0u8; 12];
    let b = k.to_be_bytes();
    let mut i = 0;
    while i < 8 {
        v[4 + i] = b[i];
        i += 1;
    }
    v
}

fn final_tag_decision() {
    const INFO: [u8; 5] = [0xD2, 0x02, 7, 3, 0];
    let key = [7u8; 16];
    // what the decryptor has seen
    let chunks: u64 = kani::any();
    let written: u64 = kani::any();
    // what the presented final tag was made for
    let chunks_t: u64 = kani::any();
    let written_t: u64 = kani::any();
    let mut ad = [0u8; 13];
    let wb = written_t.to_be_bytes();
    let mut i = 0;
    while i < 13 {
        ad[i] = if i < 5 { INFO[i] } else { wb[i - 5] };
        i += 1;
    }
    let mut tag = BytesMut::with_capacity(16);
    let nt = core::mem::ManuallyDrop::new(nonce_for(chunks_t));
    let made = is_okf(AeadAlgorithm::Gcm.encrypt_in_place(&SymmetricKeyAlgorithm::AES128, &key[..], &nt[..], &ad[..], &mut tag));
    assert!(made && tag.len() == 16);
    let src: &[u8] = &[];
    let mut d = core::mem::ManuallyDrop::new(StreamDecryptor {
        sym_alg: SymmetricKeyAlgorithm::AES128,
        aead: AeadAlgorithm::Gcm,
        chunk_size_expanded: 64,
        written,
        chunk_index: chunks,
        mode_data: ModeData::Rfc9580 { nonce: nonce_for(chunks), info: INFO },
        message_key: Zeroizing::new(vec![7u8; 16]),
        source: src,
        is_source_done: true,
        buffer: tag,
        in_buffer_end: 16,
        out_buffer_start: 0,
    });
    let ok = is_okf(d.decrypt_last());
    let same = chunks == chunks_t && written == written_t;
    kani::cover!(ok, "a genuine final tag is accepted");
    if same {
        assert!(ok, "C03/C12: SEIPDv2 final tag for the right chunk count and octet count refused");
    } else {
        assert!(!ok, "C03: SEIPDv2 final tag accepted although it was made for a different chunk count or total octet count (dropped / duplicated / truncated chunks end cleanly)");
    }
}

#[kani::proof]
#[kani::unwind(18)]
#[kani::stub(std::fmt::format, crate::__verif_common::stub_format)]
#[kani::stub(snafu::backtrace_collection_enabled, crate::__verif_common::stub_bt)]
#[kani::stub(crate::crypto::aead::AeadAlgorithm::encrypt_in_place, stub_enc)]
#[kani::stub(crate::crypto::aead::AeadAlgorithm::decrypt_in_place, stub_dec)]
fn c03_seipdv2_final_tag_decision() {
    final_tag_decision()
}

/// one data chunk: 2 ciphertext octets + tag made for chunk index `chunks_t`; the decryptor is at index `chunks`.
/// decrypt() must accept iff the indices agree (reordered / duplicated / dropped chunks fail), and on success
/// account the octets and move to the next index.
fn chunk_decision() {
    const INFO: [u8; 5] = [0xD2, 0x02, 7, 3, 0];
    let key = [7u8; 16];
    let chunks: u64 = kani::any();
    kani::assume(chunks < u64::MAX);
    let written: u64 = kani::any();
    kani::assume(written < u64::MAX - 2);
    let chunks_t: u64 = kani::any();
    let data: [u8; 2] = kani::any();
    let mut ct = BytesMut::with_capacity(32);
    ct.extend_from_slice(&data[..]);
    let nt = core::mem::ManuallyDrop::new(nonce_for(chunks_t));
    let made = is_okf(AeadAlgorithm::Gcm.encrypt_in_place(&SymmetricKeyAlgorithm::AES128, &key[..], &nt[..], &INFO[..], &mut ct));
    assert!(made && ct.len() == 18);
    let src: &[u8] = &[];
    let mut d = core::mem::ManuallyDrop::new(StreamDecryptor {
        sym_alg: SymmetricKeyAlgorithm::AES128,
        aead: AeadAlgorithm::Gcm,
        chunk_size_expanded: 64,
        written,
        chunk_index: chunks,
        mode_data: ModeData::Rfc9580 { nonce: nonce_for(chunks), info: INFO },
        message_key: Zeroizing::new(vec![7u8; 16]),
        source: src,
        is_source_done: false,
        buffer: ct,
        in_buffer_end: 18,
        out_buffer_start: 0,
    });
    let ok = is_okf(d.decrypt());
    kani::cover!(ok, "a genuine chunk is accepted");
    if chunks == chunks_t {
        assert!(ok, "C03/C12: SEIPDv2 chunk with the right index refused");
        assert!(d.written == written + 2, "C03: plaintext octets of the chunk not accounted for the final tag");
        assert!(d.chunk_index == chunks + 1, "C03: chunk index not advanced");
        assert!(d.in_buffer_end == 0 && d.out_buffer_remaining() == 2, "C03: decrypted chunk not exposed as exactly its plaintext");
        match &d.mode_data {
            ModeData::Rfc9580 { nonce, .. } => {
                let b = (chunks + 1).to_be_bytes();
                let mut i = 0;
                while i < 8 {
                    assert!(nonce[4 + i] == b[i], "C03: next nonce is not IV || be64(chunk index + 1)");
                    i += 1;
                }
            }
            _ => assert!(false),
        }
    } else {
        assert!(!ok, "C03: SEIPDv2 chunk accepted at a position it was not made for (reordered / duplicated / dropped chunks)");
    }
}

#[kani::proof]
#[kani::unwind(18)]
#[kani::stub(std::fmt::format, crate::__verif_common::stub_format)]
#[kani::stub(snafu::backtrace_collection_enabled, crate::__verif_common::stub_bt)]
#[kani::stub(crate::crypto::aead::AeadAlgorithm::encrypt_in_place, stub_enc)]
#[kani::stub(crate::crypto::aead::AeadAlgorithm::decrypt_in_place, stub_dec)]
fn c03_seipdv2_chunk_decision() {
    chunk_decision()
}

/// the container ends with fewer than 16 octets left (N of them, arbitrary): the stream cannot hold a final tag;
/// fill_inner / read must fail, never report a clean (empty) end of stream
fn truncated_tail<const N: usize>() {
    const INFO: [u8; 5] = [0xD2, 0x02, 7, 3, 0];
    let tail: [u8; N] = kani::any();
    let chunks: u64 = kani::any();
    let written: u64 = kani::any();
    let mut d = core::mem::ManuallyDrop::new(StreamDecryptor {
        sym_alg: SymmetricKeyAlgorithm::AES128,
        aead: AeadAlgorithm::Gcm,
        chunk_size_expanded: 64,
        written,
        chunk_index: chunks,
        mode_data: ModeData::Rfc9580 { nonce: nonce_for(chunks), info: INFO },
        message_key: Zeroizing::new(vec![7u8; 16]),
        source: &tail[..],
        is_source_done: false,
        buffer: BytesMut::with_capacity(160),
        in_buffer_end: 0,
        out_buffer_start: 0,
    });
    let mut out = [0u8; 4];
    let r = okf(std::io::Read::read(&mut *d, &mut out[..]));
    assert!(r.is_none(), "C03: SEIPDv2 container truncated to fewer than 16 trailing octets ends without an error");
}

macro_rules! tproof {
    ($name:ident, $n:expr) => {
        #[kani::proof]
        #[kani::unwind(18)]
        #[kani::stub(std::fmt::format, crate::__verif_common::stub_format)]
        #[kani::stub(snafu::backtrace_collection_enabled, crate::__verif_common::stub_bt)]
        #[kani::stub(crate::crypto::aead::AeadAlgorithm::encrypt_in_place, stub_enc)]
        #[kani::stub(crate::crypto::aead::AeadAlgorithm::decrypt_in_place, stub_dec)]
        fn $name() {
            truncated_tail::<$n>()
        }
    };
}
tproof!(c03_seipdv2_truncated_0, 0);
tproof!(c03_seipdv2_truncated_1, 1);
tproof!(c03_seipdv2_truncated_15, 15);

/// UNREGISTERED PROBE (timeout 900 s: split_off + split_to/unsplit in one path).
/// a whole one-chunk container read through the real read()/fill_inner: [2 ciphertext octets + chunk tag][final tag],
/// where the chunk tag was made for index `kc` and the final tag for (index `kf`, `wf` octets), all symbolic.
/// The first read succeeds iff kc = 0, kf = 1, wf = 2; then exactly the 2 plaintext octets come out.
fn one_chunk_message() {
    const INFO: [u8; 5] = [0xD2, 0x02, 7, 3, 0];
    let key = [7u8; 16];
    let kc: u64 = kani::any();
    let kf: u64 = kani::any();
    let wf: u64 = kani::any();
    let data: [u8; 2] = kani::any();
    let mut ct = BytesMut::with_capacity(64);
    ct.extend_from_slice(&data[..]);
    let n1 = core::mem::ManuallyDrop::new(nonce_for(kc));
    assert!(is_okf(AeadAlgorithm::Gcm.encrypt_in_place(&SymmetricKeyAlgorithm::AES128, &key[..], &n1[..], &INFO[..], &mut ct)));
    let mut ad = [0u8; 13];
    let wb = wf.to_be_bytes();
    let mut i = 0;
    while i < 13 {
        ad[i] = if i < 5 { INFO[i] } else { wb[i - 5] };
        i += 1;
    }
    let mut ft = BytesMut::with_capacity(16);
    let n2 = core::mem::ManuallyDrop::new(nonce_for(kf));
    assert!(is_okf(AeadAlgorithm::Gcm.encrypt_in_place(&SymmetricKeyAlgorithm::AES128, &key[..], &n2[..], &ad[..], &mut ft)));
    let mut stream = [0u8; 34];
    let mut j = 0;
    while j < 34 {
        stream[j] = if j < 18 { ct[j] } else { ft[j - 18] };
        j += 1;
    }
    core::mem::forget(ct);
    core::mem::forget(ft);
    let mut d = core::mem::ManuallyDrop::new(StreamDecryptor {
        sym_alg: SymmetricKeyAlgorithm::AES128,
        aead: AeadAlgorithm::Gcm,
        chunk_size_expanded: 64,
        written: 0,
        chunk_index: 0,
        mode_data: ModeData::Rfc9580 { nonce: nonce_for(0), info: INFO },
        message_key: Zeroizing::new(vec![7u8; 16]),
        source: &stream[..],
        is_source_done: false,
        buffer: BytesMut::with_capacity(160),
        in_buffer_end: 0,
        out_buffer_start: 0,
    });
    let mut out = [0u8; 4];
    let r = okf(std::io::Read::read(&mut *d, &mut out[..]));
    let genuine = kc == 0 && kf == 1 && wf == 2;
    kani::cover!(genuine, "the genuine container");
    if genuine {
        assert!(r == Some(2) && out[0] == data[0] && out[1] == data[1], "C03/C01: genuine one-chunk SEIPDv2 container does not decrypt to its plaintext");
    } else {
        assert!(r.is_none(), "C03: SEIPDv2 container with a chunk or final tag made for another position/length decrypts without an error");
    }
}

#[kani::proof]
#[kani::unwind(36)]
#[kani::stub(std::fmt::format, crate::__verif_common::stub_format)]
#[kani::stub(snafu::backtrace_collection_enabled, crate::__verif_common::stub_bt)]
#[kani::stub(crate::crypto::aead::AeadAlgorithm::encrypt_in_place, stub_enc)]
#[kani::stub(crate::crypto::aead::AeadAlgorithm::decrypt_in_place, stub_dec)]
fn c03_seipdv2_one_chunk_message() {
    one_chunk_message()
}
