// C09: the CFB (SEIPDv1) stream encryptor driven by read(): Ok(0) means end of stream.  One step of the real
// state machine from each state a read()-driven consumer can be in when its previous chunk is used up; the
// consumer's buffer size is symbolic.  Child module of src/crypto/sym/encryptor.rs (private enum variants).
#![allow(unused, dead_code)]
use std::io::Read;

use super::*;
use crate::__verif_common::*;

type Inner<'a> = StreamEncryptorInner<Aes128, &'a [u8]>;

fn enc() -> BufEncryptor<Aes128> {
    let key = [7u8; 16];
    let iv = [0u8; 16];
    match okf(BufEncryptor::<Aes128>::new_from_slices(&key, &iv)) {
        Some(e) => e,
        None => unreachable!(),
    }
}

fn is_done(s: &Inner<'_>) -> bool {
    matches!(s, StreamEncryptorInner::Done)
}

/// prefix fully handed out, N source octets (all values) still unread, consumer buffer of BL octets
fn after_prefix<const N: usize, const BL: usize>() {
    let data: [u8; N] = kani::any();
    // (a symbolic consumer buffer length makes Bytes::try_copy_to_slice unroll to the global bound: concrete per instance)
    let blen: usize = BL;
    let mut st = core::mem::ManuallyDrop::new(Inner::Prefix {
        hasher: Sha1::default(),
        encryptor: enc(),
        prefix: Bytes::new(),
        source: &data[..],
    });
    let mut buf = [0u8; 4];
    let r = okf(st.read(&mut buf[..blen]));
    match r {
        None => assert!(false, "C09: CFB encryptor: error on an in-memory source"),
        Some(n) => {
            assert!(n <= blen);
            // after the prefix at least the 22 MDC octets are still to come, whatever the source holds
            assert!(n > 0 || is_done(&st), "C09: CFB stream encryptor read() returns Ok(0) before the stream is complete");
            assert!(!is_done(&st), "C09: CFB stream encryptor skips the MDC");
        }
    }
}

/// data chunk used up and the source already exhausted: the next read must start delivering the MDC
fn after_data<const BL: usize>() {
    let blen: usize = BL;
    let mut st = core::mem::ManuallyDrop::new(Inner::Data {
        hasher: Sha1::default(),
        encryptor: enc(),
        buffer: BytesMut::new(),
        source: None,
    });
    let mut buf = [0u8; 4];
    let r = okf(st.read(&mut buf[..blen]));
    assert!(r == Some(blen), "C09: CFB stream encryptor read() does not deliver the MDC after the last data chunk");
    assert!(matches!(&*st, StreamEncryptorInner::Mdc { mdc } if mdc.len() == 22 - blen), "C09: MDC is not 22 octets");
}

/// MDC used up: end of stream, and it stays there
fn after_mdc() {
    let blen: usize = kani::any();
    kani::assume(blen >= 1 && blen <= 4);
    let mut st = core::mem::ManuallyDrop::new(Inner::Mdc { mdc: Bytes::new() });
    let mut buf = [0u8; 4];
    let r = okf(st.read(&mut buf[..blen]));
    assert!(r == Some(0) && is_done(&st), "C09: CFB stream encryptor does not end after the MDC");
    let r2 = okf(st.read(&mut buf[..blen]));
    assert!(r2 == Some(0) && is_done(&st), "C09: CFB stream encryptor leaves the end-of-stream state");
}

/// source that never delivers an octet: every read fails (kind Interrupted, which std's copy/read_to_end retry)
struct NeverSource;
impl Read for NeverSource {
    fn read(&mut self, _buf: &mut [u8]) -> std::io::Result<usize> {
        Err(std::io::Error::from(std::io::ErrorKind::Interrupted))
    }
}

/// data state, nothing buffered, source failing: the error surfaces, and a retried read() must not hand out octets
/// (the source never produced any - whatever comes out would be scratch memory, not ciphertext)
fn source_error_then_retry<const BL: usize>() {
    let mut st = core::mem::ManuallyDrop::new(StreamEncryptorInner::<Aes128, NeverSource>::Data {
        hasher: Sha1::default(),
        encryptor: enc(),
        buffer: BytesMut::new(),
        source: Some(NeverSource),
    });
    let mut buf = [0u8; 4];
    let r1 = okf(st.read(&mut buf[..BL]));
    assert!(r1.is_none(), "C09: CFB stream encryptor: source error not surfaced");
    let r2 = okf(st.read(&mut buf[..BL]));
    assert!(!matches!(r2, Some(n) if n > 0), "C09: CFB stream encryptor hands out octets after a source error although the source never delivered any");
}

/// the primitives are irrelevant to the read() state machine: SHA-1 compression and the CFB keystream are
/// no-ops under Kani (ciphertext = plaintext, digest = initial state); natively the real ones run
pub fn stub_sha1_compress(_state: &mut [u32; 5], _blocks: &[generic_array::GenericArray<u8, generic_array::typenum::U64>]) {}
pub fn stub_cfb_encrypt<C: BlockEncryptMut + BlockCipher>(_this: &mut BufEncryptor<C>, _data: &mut [u8]) {}

macro_rules! cproof {
    ($name:ident, $uw:expr, $body:block) => {
        #[kani::proof]
        #[kani::unwind($uw)]
        #[kani::stub(std::fmt::format, crate::__verif_common::stub_format)]
        #[kani::stub(snafu::backtrace_collection_enabled, crate::__verif_common::stub_bt)]
        #[kani::stub(std::arch::x86_64::__cpuid_count, crate::__verif_common::stub_cpuid)]
        #[kani::stub(sha1::compress::compress, stub_sha1_compress)]
        #[kani::stub(cfb_mode::BufEncryptor::encrypt, stub_cfb_encrypt)]
        fn $name() $body
    };
}
/// C12: the SEIPDv1 prefix the encryptor emits is block-size random octets followed by a repetition of the last two
/// (RFC 9580 5.13.1 "quick check"), for every value the RNG can deliver; CFB is the identity here so the plaintext
/// layout is observable
struct AnyRng;
impl rand::RngCore for AnyRng {
    fn next_u32(&mut self) -> u32 {
        kani::any()
    }
    fn next_u64(&mut self) -> u64 {
        kani::any()
    }
    fn fill_bytes(&mut self, dest: &mut [u8]) {
        let mut i = 0;
        while i < dest.len() {
            dest[i] = kani::any();
            i += 1;
        }
    }
    fn try_fill_bytes(&mut self, dest: &mut [u8]) -> Result<(), rand::Error> {
        self.fill_bytes(dest);
        Ok(())
    }
}
impl rand::CryptoRng for AnyRng {}

fn seipdv1_prefix() {
    let key = [7u8; 16];
    let src: &[u8] = &[];
    match okf(StreamEncryptorInner::<Aes128, &[u8]>::new(AnyRng, src, &key[..])) {
        None => assert!(false, "C12: SEIPDv1 encryptor construction failed"),
        Some(st) => {
            let st = core::mem::ManuallyDrop::new(st);
            match &*st {
                StreamEncryptorInner::Prefix { prefix, .. } => {
                    assert!(prefix.len() == 18, "C12: SEIPDv1 prefix is not block size + 2 octets");
                    assert!(prefix[16] == prefix[14] && prefix[17] == prefix[15], "C12: SEIPDv1 quick-check octets are not a repetition of the last two random octets");
                }
                _ => assert!(false, "C12: SEIPDv1 encryptor does not start in the prefix state"),
            }
        }
    }
}
cproof!(c12_seipdv1_prefix_layout, 66, { seipdv1_prefix() });

cproof!(c09_cfb_enc_after_prefix_0_b1, 66, { after_prefix::<0, 1>() });
cproof!(c09_cfb_enc_after_prefix_0_b4, 66, { after_prefix::<0, 4>() });
// UNREGISTERED PROBES (time out at 900 s: with a non-empty source BytesMut's length after truncate(read) is no
// longer folded and Buf::try_copy_to_slice unrolls to the global bound 66 that Sha1's 64-octet block buffer needs)
cproof!(c09_cfb_enc_after_prefix_1_b1, 66, { after_prefix::<1, 1>() });
cproof!(c09_cfb_enc_after_prefix_2_b4, 66, { after_prefix::<2, 4>() });
cproof!(c09_cfb_enc_after_data_b1, 66, { after_data::<1>() });
cproof!(c09_cfb_enc_after_data_b4, 66, { after_data::<4>() });
cproof!(c09_cfb_enc_after_mdc, 6, { after_mdc() });
// UNREGISTERED PROBE (timeout 900 s; natively: a retried read() after a source error panics "encryption panicked" when the
// error hit the Prefix->Data transition, or hands out scratch octets when it hit a refill - an observation outside C09's text,
// which only requires the error to surface)
cproof!(c09_cfb_enc_source_error_retry, 66, { source_error_then_retry::<4>() });
