// C04: AES key unwrap (RFC 3394) as called by the ECDH PKESK path with the attacker's "encrypted session key"
// field: for fields shorter than one wrap block the call must return an error, never panic.
// (Longer fields run the real AES rounds, which is not decidable here: see DESIGN 0.6.)
#![allow(unused, dead_code)]
use super::__verif_common::*;
use crate::crypto::aes_kw;

fn unwrap_short<const N: usize>() {
    let data: [u8; N] = kani::any();
    let key = [7u8; 16];
    let r = okf(aes_kw::unwrap(&key[..], &data[..]));
    assert!(r.is_none(), "C04: AES key unwrap of fewer than 16 octets returned a key");
}
vproof!(c04_aes_kw_unwrap_0, 10, { unwrap_short::<0>() });
vproof!(c04_aes_kw_unwrap_3, 10, { unwrap_short::<3>() });
vproof!(c04_aes_kw_unwrap_7, 10, { unwrap_short::<7>() });
// (8 octets and more run the real AES key schedule and rounds: beyond the unwind bound, not registered)
