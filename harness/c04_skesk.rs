// C04: a v4 SKESK whose encrypted-session-key field holds N attacker-chosen octets (N = 0, 1, 2, 17), decrypted
// through the public SymKeyEncryptedSessionKey::decrypt with a key of the right size: Ok or Err, never a panic.
// The packet is built by struct literal (child module of src/packet/sym_key_encrypted_session_key.rs); CFB
// decryption (SymmetricKeyAlgorithm::decrypt_with_iv_regular) is a no-op (plaintext = attacker's octets: "attacker-chosen session-key plaintext").
#![allow(unused, dead_code)]
use super::*;
use crate::__verif_common::*;
use crate::crypto::hash::HashAlgorithm;

pub fn stub_cfb(_alg: SymmetricKeyAlgorithm, _key: &[u8], _iv: &[u8], _ciphertext: &mut [u8]) -> Result<()> {
    Ok(())
}

fn skesk_v4_plaintext<const N: usize>() {
    let body: [u8; N] = kani::any();
    let stat: &'static [u8; N] = Box::leak(Box::new(body));
    let p = core::mem::ManuallyDrop::new(SymKeyEncryptedSessionKey::V4 {
        packet_header: PacketHeader::new_fixed(Tag::SymKeyEncryptedSessionKey, (4 + N) as u32),
        sym_algorithm: SymmetricKeyAlgorithm::AES128,
        s2k: StringToKey::Simple { hash_alg: HashAlgorithm::Sha256 },
        encrypted_key: Bytes::from_static(&stat[..]),
    });
    let key = [7u8; 16];
    let r = okf(p.decrypt(&key[..]));
    // reaching this line at all is the property (a panic is a failed check); plausibility rule on top:
    if let Some(sk) = r {
        match &sk {
            PlainSessionKey::V3_4 { key, sym_alg } => {
                assert!(N >= 1, "C04/C18: empty session-key plaintext accepted");
                assert!(key.len() == N - 1 && sym_alg.key_size() == N - 1, "C04/C18: session key length does not match the declared cipher");
            }
            _ => assert!(false, "C04: v4 SKESK produced a non-v4 session key"),
        }
        core::mem::forget(sk);
    }
}

macro_rules! kproof {
    ($name:ident, $n:expr) => {
        #[kani::proof]
        #[kani::unwind(20)]
        #[kani::stub(std::fmt::format, crate::__verif_common::stub_format)]
        #[kani::stub(snafu::backtrace_collection_enabled, crate::__verif_common::stub_bt)]
        #[kani::stub(std::arch::x86_64::__cpuid_count, crate::__verif_common::stub_cpuid)]
        #[kani::stub(crate::crypto::sym::SymmetricKeyAlgorithm::decrypt_with_iv_regular, stub_cfb)]
        fn $name() {
            skesk_v4_plaintext::<$n>()
        }
    };
}
kproof!(c04_skesk_v4_plain_0, 0);
kproof!(c04_skesk_v4_plain_1, 1);
kproof!(c04_skesk_v4_plain_2, 2);
kproof!(c04_skesk_v4_plain_17, 17);
