// C09: the I/O plumbing every streaming layer is built on — results independent of how the source
// fragments its data; a source error surfaces as an error.
#![allow(unused, dead_code)]
use std::io::{self, BufRead, Read};

use bytes::{Buf, BytesMut};

use super::__verif_common::*;
use crate::parsing_reader::BufReadParsing;
use crate::util::{fill_buffer, fill_buffer_bytes};

/// BufRead source over `data` whose k-th fill_buf exposes at most cuts[k] (>=1) bytes; errors at call `fail_at`
pub struct ShortBuf<'a, const K: usize> {
    data: &'a [u8],
    pos: usize,
    cuts: [usize; K],
    call: usize,
    fail_at: usize,
}
impl<'a, const K: usize> ShortBuf<'a, K> {
    fn window(&self) -> usize {
        let rem = self.data.len() - self.pos;
        if self.call < K {
            rem.min(self.cuts[self.call])
        } else {
            rem
        }
    }
}
impl<const K: usize> Read for ShortBuf<'_, K> {
    fn read(&mut self, buf: &mut [u8]) -> io::Result<usize> {
        if self.call == self.fail_at {
            self.call += 1;
            return Err(io::Error::from(io::ErrorKind::Other));
        }
        let n = self.window().min(buf.len());
        let mut i = 0;
        while i < n {
            buf[i] = self.data[self.pos + i];
            i += 1;
        }
        self.pos += n;
        self.call += 1;
        Ok(n)
    }
}
impl<const K: usize> BufRead for ShortBuf<'_, K> {
    fn fill_buf(&mut self) -> io::Result<&[u8]> {
        if self.call == self.fail_at {
            self.call += 1;
            return Err(io::Error::from(io::ErrorKind::Other));
        }
        let n = self.window();
        Ok(&self.data[self.pos..self.pos + n])
    }
    fn consume(&mut self, amt: usize) {
        self.pos += amt;
        self.call += 1;
    }
}

fn cuts3() -> [usize; 3] {
    let c: [usize; 3] = kani::any();
    kani::assume(c[0] >= 1 && c[0] <= 8 && c[1] >= 1 && c[1] <= 8 && c[2] >= 1 && c[2] <= 8);
    c
}

/// util::fill_buffer: fills min(D, N) bytes = prefix of the data, for every read schedule; Ok(<N) only at EOF
fn fill_buffer_case<const D: usize, const N: usize>() {
    let data: [u8; D] = kani::any();
    let cuts = cuts3();
    let mut src = ShortBuf::<3> { data: &data[..], pos: 0, cuts, call: 0, fail_at: usize::MAX };
    let mut buf = [0u8; N];
    let r = okf(fill_buffer(&mut src, &mut buf[..], None));
    let want = if D < N { D } else { N };
    kani::cover!(cuts[0] == 1 && cuts[1] == 1, "one byte at a time");
    match r {
        None => assert!(false, "C09 fill_buffer: error without a source error"),
        Some(n) => {
            assert!(n == want, "C09 fill_buffer: short result although the source had more data (or over-read)");
            let mut i = 0;
            while i < N {
                if i < want {
                    assert!(buf[i] == data[i], "C09 fill_buffer: data differs from the source");
                }
                i += 1;
            }
            assert!(src.pos == want, "C09 fill_buffer: consumed a different amount than it returned");
        }
    }
}
vproof!(c09_fill_buffer_5_4, 8, { fill_buffer_case::<5, 4>() });
vproof!(c09_fill_buffer_3_4, 8, { fill_buffer_case::<3, 4>() });
vproof!(c09_fill_buffer_4_4, 8, { fill_buffer_case::<4, 4>() });

/// a source error at any call surfaces as Err
vproof!(c09_fill_buffer_fault, 8, {
    let data: [u8; 5] = kani::any();
    let cuts = cuts3();
    let fail_at: usize = kani::any();
    kani::assume(fail_at < 4);
    let mut src = ShortBuf::<3> { data: &data[..], pos: 0, cuts, call: 0, fail_at };
    let mut buf = [0u8; 4];
    let r = okf(fill_buffer(&mut src, &mut buf[..], None));
    // the error is hit iff the buffer was not yet full when call `fail_at` is made
    let mut got = 0usize;
    let mut k = 0;
    let mut hit = false;
    while k < 4 {
        if !hit && got < 4 {
            if k == fail_at {
                hit = true;
            } else {
                let w = if k < 3 { cuts[k] } else { 8 };
                let n = w.min(5 - got).min(4 - got);
                got += n;
            }
        }
        k += 1;
    }
    kani::cover!(hit);
    kani::cover!(!hit);
    assert!(r.is_none() == hit, "C09 fill_buffer: a source error must surface as Err (and only then)");
});

/// fill_buffer_bytes over a BufRead source
fn fill_bytes_case<const D: usize, const N: usize>() {
    let data: [u8; D] = kani::any();
    let cuts = cuts3();
    let mut src = ShortBuf::<3> { data: &data[..], pos: 0, cuts, call: 0, fail_at: usize::MAX };
    let mut buf = BytesMut::with_capacity(8);
    let r = okf(fill_buffer_bytes(&mut src, &mut buf, N));
    let want = if D < N { D } else { N };
    match r {
        None => assert!(false, "C09 fill_buffer_bytes: error without a source error"),
        Some(n) => {
            assert!(n == want && buf.len() == want, "C09 fill_buffer_bytes: wrong amount");
            let mut i = 0;
            while i < N {
                if i < want {
                    assert!(buf[i] == data[i], "C09 fill_buffer_bytes: data differs from the source");
                }
                i += 1;
            }
            assert!(src.pos == want, "C09 fill_buffer_bytes: consumed != returned");
        }
    }
    core::mem::forget(buf);
}
vproof!(c09_fill_bytes_5_4, 8, { fill_bytes_case::<5, 4>() });
vproof!(c09_fill_bytes_3_4, 8, { fill_bytes_case::<3, 4>() });

/// BufReadParsing::read_arr / take_bytes: all-or-error, schedule independent
vproof!(c09_read_arr_4, 8, {
    let data: [u8; 5] = kani::any();
    let dlen: usize = kani::any();
    kani::assume(dlen <= 5);
    let cuts = cuts3();
    let mut src = ShortBuf::<3> { data: &data[..dlen], pos: 0, cuts, call: 0, fail_at: usize::MAX };
    let r = okf(src.read_arr::<4>());
    kani::cover!(dlen == 3);
    match r {
        None => assert!(dlen < 4, "C09 read_arr: error although enough data"),
        Some(a) => {
            assert!(dlen >= 4, "C09/C17 read_arr: short data returned as a value");
            assert!(a[0] == data[0] && a[1] == data[1] && a[2] == data[2] && a[3] == data[3], "C09 read_arr: data differs");
            assert!(src.pos == 4);
        }
    }
});
vproof!(c09_take_bytes_3, 8, {
    let data: [u8; 4] = kani::any();
    let dlen: usize = kani::any();
    kani::assume(dlen <= 4);
    let cuts = cuts3();
    let mut src = ShortBuf::<3> { data: &data[..dlen], pos: 0, cuts, call: 0, fail_at: usize::MAX };
    let r = okf(src.take_bytes(3));
    match r {
        None => assert!(dlen < 3, "C09 take_bytes: error although enough data"),
        Some(b) => {
            assert!(dlen >= 3, "C09/C17 take_bytes: body shorter than declared accepted");
            assert!(b.len() == 3 && b[0] == data[0] && b[1] == data[1] && b[2] == data[2], "C09 take_bytes: data differs");
            assert!(src.pos == 3);
            core::mem::forget(b);
        }
    }
});
