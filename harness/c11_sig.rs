// C11 / C02 / C06 / C15: signature transcripts.  The hash primitive is replaced (kani::stub of
// HashAlgorithm::new_hasher) by the injective transcript recorder, the public-key primitive by a mock
// key whose "signature" is the digest it was handed.  Every assertion is phrased as equality of digests
// obtained through `new_hasher`, so that a native replay (no stubs, real SHA-2) evaluates the same
// statement with real primitives.
#![allow(unused, dead_code, unsafe_code, static_mut_refs)]
use bytes::Bytes;
use digest::DynDigest;

use crate::__verif_common::*;
use crate::crypto::hash::HashAlgorithm;
use crate::crypto::public_key::PublicKeyAlgorithm;
use crate::errors::Result;
use crate::packet::{
    Signature, SignatureConfig, SignatureType, SignatureVersionSpecific, Subpacket, SubpacketData,
    SubpacketLength, SubpacketType,
};
use crate::ser::Serialize;
use crate::types::{
    Fingerprint, KeyDetails, KeyId, KeyVersion, Password, PublicParams, SignatureBytes, SigningKey,
    Tag, Timestamp, VerifyingKey,
};

pub const K: usize = 5; // transcripts up to 80 bytes

pub fn stub_new_hasher(
    alg: HashAlgorithm,
) -> core::result::Result<Box<dyn DynDigest + Send>, crate::crypto::hash::Error> {
    match alg {
        HashAlgorithm::Md5
        | HashAlgorithm::Sha1
        | HashAlgorithm::Ripemd160
        | HashAlgorithm::Sha256
        | HashAlgorithm::Sha384
        | HashAlgorithm::Sha512
        | HashAlgorithm::Sha224
        | HashAlgorithm::Sha3_256
        | HashAlgorithm::Sha3_512 => Ok(Box::new(Rec::<K>::default())),
        _ => Err(crate::crypto::hash::Error::Unsupported { alg }),
    }
}

macro_rules! sproof {
    ($name:ident, $uw:expr, $body:block) => {
        #[kani::proof]
        #[kani::unwind($uw)]
        #[kani::stub(std::fmt::format, crate::__verif_common::stub_format)]
        #[kani::stub(snafu::backtrace_collection_enabled, crate::__verif_common::stub_bt)]
        #[kani::stub(core::fmt::write, crate::__verif_common::stub_fmt_write)]
        #[kani::stub(crate::crypto::hash::HashAlgorithm::new_hasher, crate::packet::signature::types::__verif_c11_sig::stub_new_hasher)]
        fn $name() $body
    };
}

// ---------------------------------------------------------------------------------------------
// mock key: crypto-free key material.  `sign` returns the digest, `verify` accepts iff digest == sig.
#[derive(Debug)]
pub struct MockKey<const B: usize> {
    pub ver: KeyVersion,
    pub body: [u8; B],
    pub alg: PublicKeyAlgorithm,
    pub fp: Fingerprint,
    pub kid: KeyId,
    pub params: PublicParams,
}
impl<const B: usize> MockKey<B> {
    /// never dropped: dropping the `Bytes` inside PublicParams goes through the Bytes vtable's function
    /// pointers, which CBMC resolves to *every* drop implementation (incl. deallocating ones)
    pub fn new(ver: KeyVersion, body: [u8; B], idb: u8) -> core::mem::ManuallyDrop<Self> {
        let fp = match ver {
            KeyVersion::V6 => Fingerprint::V6([idb; 32]),
            _ => Fingerprint::V4([idb; 20]),
        };
        core::mem::ManuallyDrop::new(MockKey {
            ver,
            body,
            alg: PublicKeyAlgorithm::Private100,
            fp,
            kid: KeyId::new([idb; 8]),
            params: PublicParams::Unknown { data: Bytes::new() },
        })
    }
}
impl<const B: usize> Serialize for MockKey<B> {
    fn to_writer<W: std::io::Write>(&self, w: &mut W) -> Result<()> {
        w.write_all(&self.body[..])?;
        Ok(())
    }
    fn write_len(&self) -> usize {
        B
    }
}
impl<const B: usize> KeyDetails for MockKey<B> {
    fn version(&self) -> KeyVersion {
        self.ver
    }
    fn legacy_key_id(&self) -> KeyId {
        self.kid
    }
    fn fingerprint(&self) -> Fingerprint {
        self.fp.clone()
    }
    fn algorithm(&self) -> PublicKeyAlgorithm {
        self.alg
    }
    fn created_at(&self) -> Timestamp {
        Timestamp::from_secs(0)
    }
    fn legacy_v3_expiration_days(&self) -> Option<u16> {
        None
    }
    fn public_params(&self) -> &PublicParams {
        &self.params
    }
}
/// What the mock key was asked to sign / is expected to verify.  Kept in statics instead of inside the
/// SignatureBytes: every heap-backed `Bytes` drags its vtable clone/drop function pointers and atomics
/// into the formula (measured: sign_key with an empty hashed area ran out of 6 GB).
pub static mut SIGNED: [u8; 96] = [0; 96];
pub static mut SIGNED_LEN: usize = 0;
pub static mut EXPECT: [u8; 96] = [0; 96];
pub static mut EXPECT_LEN: usize = 0;
pub fn signed() -> &'static [u8] {
    unsafe { &SIGNED[..SIGNED_LEN] }
}
pub fn expect_digest(d: &[u8]) {
    unsafe {
        EXPECT_LEN = d.len();
        EXPECT[..d.len()].copy_from_slice(d);
    }
}
impl<const B: usize> SigningKey for MockKey<B> {
    fn sign(&self, _pw: &Password, _hash: HashAlgorithm, data: &[u8]) -> Result<SignatureBytes> {
        unsafe {
            SIGNED_LEN = data.len();
            SIGNED[..data.len()].copy_from_slice(data);
        }
        Ok(SignatureBytes::Native(Bytes::from_static(b"mock")))
    }
    fn hash_alg(&self) -> HashAlgorithm {
        HashAlgorithm::Sha256
    }
}
impl<const B: usize> VerifyingKey for MockKey<B> {
    fn verify(&self, _hash: HashAlgorithm, data: &[u8], _sig: &SignatureBytes) -> Result<()> {
        let ok = unsafe { eq_bytes(data, &EXPECT[..EXPECT_LEN]) };
        if ok {
            Ok(())
        } else {
            Err(crate::errors::Error::InvalidInput { backtrace: None })
        }
    }
}

/// comparison of two digests in 16-byte blocks (no loop longer than 15 iterations, so that the
/// harness does not force a larger unwind bound than the code under test needs); up to 96 bytes
pub fn eq_bytes(a: &[u8], b: &[u8]) -> bool {
    if a.len() != b.len() || a.len() > 96 {
        return false;
    }
    let n = a.len();
    let mut ok = true;
    macro_rules! blk {
        ($k:expr) => {
            if n >= 16 * ($k + 1) {
                let mut x = [0u8; 16];
                let mut y = [0u8; 16];
                x.copy_from_slice(&a[16 * $k..16 * $k + 16]);
                y.copy_from_slice(&b[16 * $k..16 * $k + 16]);
                if u128::from_be_bytes(x) != u128::from_be_bytes(y) {
                    ok = false;
                }
            }
        };
    }
    blk!(0);
    blk!(1);
    blk!(2);
    blk!(3);
    blk!(4);
    blk!(5);
    let base = n - n % 16;
    macro_rules! tail {
        ($j:expr) => {
            if base + $j < n && a[base + $j] != b[base + $j] {
                ok = false;
            }
        };
    }
    tail!(0);
    tail!(1);
    tail!(2);
    tail!(3);
    tail!(4);
    tail!(5);
    tail!(6);
    tail!(7);
    tail!(8);
    tail!(9);
    tail!(10);
    tail!(11);
    tail!(12);
    tail!(13);
    tail!(14);
    ok
}

// ---------------------------------------------------------------------------------------------
// independent reference transcript (RFC 9580 5.2.4), written into a flat buffer
pub struct RefT {
    pub b: [u8; 16 * K],
    pub n: usize,
}
impl RefT {
    pub fn new() -> Self {
        RefT { b: [0; 16 * K], n: 0 }
    }
    pub fn put(&mut self, x: u8) {
        self.b[self.n] = x;
        self.n += 1;
    }
    pub fn put_all(&mut self, d: &[u8]) {
        // straight-line, <= 16 bytes (see Pack::push)
        let n = d.len();
        assert!(n <= 16);
        macro_rules! at {
            ($i:expr) => {
                if $i < n {
                    self.put(d[$i]);
                }
            };
        }
        at!(0);
        at!(1);
        at!(2);
        at!(3);
        at!(4);
        at!(5);
        at!(6);
        at!(7);
        at!(8);
        at!(9);
        at!(10);
        at!(11);
        at!(12);
        at!(13);
        at!(14);
        at!(15);
    }
    pub fn be16(&mut self, v: usize) {
        self.put((v >> 8) as u8);
        self.put(v as u8);
    }
    pub fn be32(&mut self, v: usize) {
        self.put((v >> 24) as u8);
        self.put((v >> 16) as u8);
        self.put((v >> 8) as u8);
        self.put(v as u8);
    }
    /// key framing: v4 0x99 len16 body / v6 0x9B len32 body
    pub fn key(&mut self, v6: bool, body: &[u8]) {
        if v6 {
            self.put(0x9b);
            self.be32(body.len());
        } else {
            self.put(0x99);
            self.be16(body.len());
        }
        self.put_all(body);
    }
    /// version, type, pk alg, hash alg, hashed-area length (u16 v4 / u32 v6), hashed area, trailer
    pub fn sig_fields(&mut self, v6: bool, typ: u8, pk: u8, hash: u8, hashed: &[u8]) {
        let ver = if v6 { 6 } else { 4 };
        let start = self.n;
        self.put(ver);
        self.put(typ);
        self.put(pk);
        self.put(hash);
        if v6 {
            self.be32(hashed.len());
        } else {
            self.be16(hashed.len());
        }
        // in 16-octet pieces (put_all is straight-line up to 16)
        let hl = hashed.len();
        if hl <= 16 {
            self.put_all(hashed);
        } else if hl <= 32 {
            self.put_all(&hashed[..16]);
            self.put_all(&hashed[16..]);
        } else {
            self.put_all(&hashed[..16]);
            self.put_all(&hashed[16..32]);
            self.put_all(&hashed[32..]);
        }
        let len = self.n - start;
        self.put(ver);
        self.put(0xff);
        self.be32(len);
    }
    /// digest of the reference transcript under the same hash factory as the implementation
    pub fn digest(&self, alg: HashAlgorithm) -> Option<Box<[u8]>> {
        match okf(alg.new_hasher()) {
            Some(mut h) => {
                // fed in 16-byte blocks: keeps the recorder's per-call loop short
                let n = self.n;
                macro_rules! blk {
                    ($k:expr) => {
                        if n >= 16 * ($k + 1) {
                            h.update(&self.b[16 * $k..16 * $k + 16]);
                        } else if n > 16 * $k {
                            h.update(&self.b[16 * $k..n]);
                        }
                    };
                }
                blk!(0);
                blk!(1);
                blk!(2);
                blk!(3);
                blk!(4);
                Some(h.finalize())
            }
            None => None,
        }
    }
}

/// hashed area used throughout: creation time `t`, plus one opaque subpacket (type `tt`, critical `c`,
/// two body bytes).  `EXP` (concrete per harness instance) selects the Experimental (100..=110) or the
/// Other representation: an enum value whose *variant* is symbolic makes CBMC explore every arm of every
/// later match on it.  Returns the real objects and the independent wire form.
pub fn hashed_area<const EXP: bool>(t: u32, tt: u8, c: bool, b0: u8, b1: u8) -> ([Subpacket; 2], [u8; 10]) {
    let data = if EXP {
        SubpacketData::Experimental(tt, Bytes::copy_from_slice(&[b0, b1]))
    } else {
        SubpacketData::Other(tt, Bytes::copy_from_slice(&[b0, b1]))
    };
    let sp1 = Subpacket {
        is_critical: false,
        data: SubpacketData::SignatureCreationTime(Timestamp::from_secs(t)),
        len: SubpacketLength::One(5),
    };
    let sp2 = Subpacket { is_critical: c, data, len: SubpacketLength::One(3) };
    let tb = t.to_be_bytes();
    let wire = [5, 2, tb[0], tb[1], tb[2], tb[3], 3, tt | ((c as u8) << 7), b0, b1];
    ([sp1, sp2], wire)
}
/// type ids for the chosen representation
pub fn tt_ok<const EXP: bool>(tt: u8) -> bool {
    if EXP {
        tt >= 100 && tt <= 110
    } else {
        tt < 128 && is_other(tt)
    }
}

/// type ids that the crate represents as opaque (Other / Experimental) subpackets
pub fn opaque_type(tt: u8) -> bool {
    tt < 128 && matches!(SubpacketType::from_u8(tt).0, SubpacketType::Other(_) | SubpacketType::Experimental(_))
}
pub fn is_other(tt: u8) -> bool {
    matches!(SubpacketType::from_u8(tt).0, SubpacketType::Other(_))
}

/// Signature value built directly (this module is injected as a child of packet/signature/types.rs).
/// Values that are moved through `Result<Signature>`/`Option<Signature>` lose the constness of their inner
/// Vec pointers/lengths in CBMC (niche-encoded wrappers are accessed through byte-level casts), after which
/// every loop over the subpacket areas is unrolled over garbage elements.
pub fn mk_sig(config: SignatureConfig, signed_hash_value: [u8; 2]) -> Signature {
    Signature {
        packet_header: crate::packet::PacketHeader::new_fixed(Tag::Signature, 0),
        inner: crate::packet::signature::types::InnerSignature::Known {
            config,
            signed_hash_value,
            signature: SignatureBytes::Native(Bytes::from_static(b"mock")),
        },
    }
}

/// the digest the mock key was handed by the last sign call
pub fn sig_digest(_sig: &Signature) -> Option<&'static [u8]> {
    Some(signed())
}

pub const SALT16: [u8; 16] = [0xA0, 0xA1, 0xA2, 0xA3, 0xA4, 0xA5, 0xA6, 0xA7, 0xA8, 0xA9, 0xAA, 0xAB, 0xAC, 0xAD, 0xAE, 0xAF];


/// builds a SignatureConfig whose subpacket areas are stack-backed (see common.rs: stack_vec)
macro_rules! mk_cfg {
    ($cfg:ident, $harr:ident, $ustore:ident, $v6:expr, $typ:expr, $pk:expr, $salt:expr, $hashed:expr) => {
        let mut $harr = core::mem::ManuallyDrop::new($hashed);
        let mut $ustore = core::mem::MaybeUninit::<[Subpacket; 1]>::uninit();
        let mut $cfg = if $v6 {
            SignatureConfig::v6_with_salt($typ, PublicKeyAlgorithm::from($pk), HashAlgorithm::Sha256, $salt.to_vec())
        } else {
            SignatureConfig::v4($typ, PublicKeyAlgorithm::from($pk), HashAlgorithm::Sha256)
        };
        $cfg.hashed_subpackets = stack_vec!($harr, 2);
        $cfg.unhashed_subpackets = stack_vec_empty!($ustore, Subpacket);
    };
}

/// compares the digest handed to the mock key with the reference transcript's digest
fn check_digest(rt: &RefT, what: &'static str) -> bool {
    match rt.digest(HashAlgorithm::Sha256) {
        Some(w) => {
            let ok = eq_bytes(&w, signed());
            core::mem::forget(w);
            ok
        }
        None => false,
    }
}

// ---------------------------------------------------------------------------------------------
// One direction per harness (sign side: digest handed to the key == reference; verify side: a signature
// carrying the reference digest is accepted).  Both directions in one harness made CBMC report spurious
// failures of free()'s preconditions (the combined formula presumably merged the two hasher boxes).

/// reference transcript of a data signature
fn ref_data<const L: usize>(rt: &mut RefT, v6: bool, salt: &[u8; 16], data: &[u8; L], text: bool, pk: u8, wire: &[u8; 10]) {
    if v6 {
        rt.put_all(salt);
    }
    let mut i = 0;
    let mut prev_cr = false;
    while i < L {
        let ch = data[i];
        if text && ch == b'\n' && !prev_cr {
            rt.put(b'\r');
        }
        rt.put(ch);
        prev_cr = ch == b'\r';
        i += 1;
    }
    rt.sig_fields(v6, if text { 1 } else { 0 }, pk, 8, wire);
}

/// data signature, sign side
fn sign_data<const L: usize, const EXP: bool>(v6: bool) {
    sign_data_mode::<L, EXP>(v6, kani::any())
}
/// `text` concrete per instance halves the paths (the signature type is an enum: never symbolic)
fn sign_data_mode<const L: usize, const EXP: bool>(v6: bool, text: bool) {
    let data: [u8; L] = kani::any();
    let pk: u8 = kani::any();
    let t: u32 = kani::any();
    let tt: u8 = kani::any();
    // unknown *critical* subpackets make sign() fail and drop the (stack-backed) config: see c11_fields_*
    let c: bool = if EXP { kani::any() } else { false };
    kani::assume(tt_ok::<EXP>(tt));
    let typ = if text { SignatureType::Text } else { SignatureType::Binary };
    let mut salt = SALT16;
    salt[0] = kani::any();
    salt[15] = kani::any();
    let (hashed, wire) = hashed_area::<EXP>(t, tt, c, kani::any(), kani::any());
    mk_cfg!(cfg, harr, ustore, v6, typ, pk, salt, hashed);
    let key = MockKey::<4>::new(if v6 { KeyVersion::V6 } else { KeyVersion::V4 }, kani::any(), 7);
    kani::cover!(text && L > 0 && data[0] == b'\n', "maybe: text with bare LF");
    match okf(cfg.sign(&*key, &Password::empty(), &data[..])) {
        None => assert!(false, "C06/C11: signing a data signature failed"),
        Some(sig) => {
            let shv = sig.signed_hash_value();
            core::mem::forget(sig);
            let mut rt = RefT::new();
            ref_data(&mut rt, v6, &salt, &data, text, pk, &wire);
            assert!(check_digest(&rt, "data"), "C11: digest signed for a data signature differs from RFC 9580 5.2.4");
            let d = signed();
            assert!(shv == Some([d[0], d[1]]), "C11: signed hash value is not the digest prefix");
        }
    }
}
sproof!(c11_sign_data_v4_2, 7, { sign_data::<2, false>(false) });
sproof!(c11_sign_data_v4_2_bin, 7, { sign_data_mode::<2, false>(false, false) });
sproof!(c11_sign_data_v4_2_text, 7, { sign_data_mode::<2, false>(false, true) });
sproof!(c11_sign_data_v6_2_bin, 7, { sign_data_mode::<2, false>(true, false) });
sproof!(c11_sign_data_v6_2_text, 7, { sign_data_mode::<2, false>(true, true) });
sproof!(c11_sign_data_v4_2_exp, 7, { sign_data::<2, true>(false) });
sproof!(c11_sign_data_v6_2, 7, { sign_data::<2, false>(true) });
sproof!(c11_sign_data_v4_3, 7, { sign_data::<3, false>(false) });

/// data signature, verify side (binary mode; text-mode verify runs through NormalizedReader: c06_*)
fn verify_data<const L: usize>(v6: bool) {
    let data: [u8; L] = kani::any();
    let pk: u8 = kani::any();
    let t: u32 = kani::any();
    let tt: u8 = kani::any();
    kani::assume(tt_ok::<true>(tt));
    let mut salt = SALT16;
    salt[0] = kani::any();
    let (hashed, wire) = hashed_area::<true>(t, tt, kani::any(), kani::any(), kani::any());
    mk_cfg!(cfg, harr, ustore, v6, SignatureType::Binary, pk, salt, hashed);
    let key = MockKey::<4>::new(if v6 { KeyVersion::V6 } else { KeyVersion::V4 }, kani::any(), 7);
    let mut rt = RefT::new();
    ref_data(&mut rt, v6, &salt, &data, false, pk, &wire);
    match rt.digest(HashAlgorithm::Sha256) {
        None => assert!(false),
        Some(w) => {
            expect_digest(&w);
            let vs = mk_sig(cfg, [w[0], w[1]]);
            assert!(is_okf(vs.verify(&*key, &data[..])), "C06/C11: a data signature over the RFC 9580 transcript is rejected by Signature::verify");
            core::mem::forget(vs);
            core::mem::forget(w);
        }
    }
}
sproof!(c11_verify_data_v4_2, 10, { verify_data::<2>(false) });
sproof!(c11_verify_data_v6_2, 10, { verify_data::<2>(true) });

// ---------------------------------------------------------------------------------------------
/// direct-key / key-revocation signature: 0x99 len16 body | 0x9B len32 body framing.  VERIFY selects the direction.
fn key_sig<const VERIFY: bool>(v6: bool) {
    let pk: u8 = kani::any();
    let t: u32 = kani::any();
    let tt: u8 = kani::any();
    kani::assume(tt_ok::<true>(tt));
    let rev: bool = kani::any();
    let typ = if rev { SignatureType::KeyRevocation } else { SignatureType::Key };
    let salt = SALT16;
    let (hashed, wire) = hashed_area::<true>(t, tt, false, kani::any(), kani::any());
    mk_cfg!(cfg, harr, ustore, v6, typ, pk, salt, hashed);
    let kv = if v6 { KeyVersion::V6 } else { KeyVersion::V4 };
    let signer = MockKey::<3>::new(kv, kani::any(), 7);
    // the signee may be of either version: its framing follows *its* version
    let signee_v6: bool = kani::any();
    let signee = MockKey::<5>::new(if signee_v6 { KeyVersion::V6 } else { KeyVersion::V4 }, kani::any(), 9);
    kani::cover!(signee_v6 != v6, "third-party signature over a key of the other version");
    let mut rt = RefT::new();
    if v6 {
        rt.put_all(&salt);
    }
    rt.key(signee_v6, &signee.body);
    rt.sig_fields(v6, if rev { 0x20 } else { 0x1f }, pk, 8, &wire);
    if VERIFY {
        match rt.digest(HashAlgorithm::Sha256) {
            None => assert!(false),
            Some(w) => {
                expect_digest(&w);
                let vs = mk_sig(cfg, [w[0], w[1]]);
                assert!(is_okf(vs.verify_key_third_party(&*signee, &*signer)), "C06/C11: direct-key signature over the RFC transcript rejected by verify_key_third_party");
                core::mem::forget(vs);
                core::mem::forget(w);
            }
        }
    } else {
        match okf(cfg.sign_key(&*signer, &Password::empty(), &*signee)) {
            None => assert!(false, "C06/C11: sign_key failed"),
            Some(sig) => {
                core::mem::forget(sig);
                assert!(check_digest(&rt, "key"), "C11: digest signed for a direct-key signature differs from RFC 9580 5.2.4");
            }
        }
    }
}
sproof!(c11_sign_key_v4, 7, { key_sig::<false>(false) });
sproof!(c11_sign_key_v6, 7, { key_sig::<false>(true) });
sproof!(c11_verify_key_v4, 10, { key_sig::<true>(false) });
sproof!(c11_verify_key_v6, 10, { key_sig::<true>(true) });

// ---------------------------------------------------------------------------------------------
/// subkey binding (0x18) and primary-key binding (0x19): primary framing first, then subkey
fn binding<const VERIFY: bool>(v6: bool, back: bool) {
    let pk: u8 = kani::any();
    let t: u32 = kani::any();
    let typ = if back { SignatureType::KeyBinding } else { SignatureType::SubkeyBinding };
    let salt = SALT16;
    let (hashed, wire) = hashed_area::<true>(t, 101, false, kani::any(), kani::any());
    mk_cfg!(cfg, harr, ustore, v6, typ, pk, salt, hashed);
    let kv = if v6 { KeyVersion::V6 } else { KeyVersion::V4 };
    let primary = MockKey::<3>::new(kv, kani::any(), 7);
    let sub = MockKey::<4>::new(kv, kani::any(), 9);
    let mut rt = RefT::new();
    if v6 {
        rt.put_all(&salt);
    }
    rt.key(v6, &primary.body);
    rt.key(v6, &sub.body);
    rt.sig_fields(v6, if back { 0x19 } else { 0x18 }, pk, 8, &wire);
    if VERIFY {
        match rt.digest(HashAlgorithm::Sha256) {
            None => assert!(false),
            Some(w) => {
                expect_digest(&w);
                let vs = mk_sig(cfg, [w[0], w[1]]);
                let v = if back {
                    is_okf(vs.verify_primary_key_binding(&*sub, &*primary))
                } else {
                    is_okf(vs.verify_subkey_binding(&*primary, &*sub))
                };
                assert!(v, "C06/C11: binding signature over the RFC transcript rejected by its verify function");
                core::mem::forget(vs);
                core::mem::forget(w);
            }
        }
    } else {
        let r = if back {
            okf(cfg.sign_primary_key_binding(&*sub, &*sub, &Password::empty(), &*primary))
        } else {
            okf(cfg.sign_subkey_binding(&*primary, &*primary, &Password::empty(), &*sub))
        };
        match r {
            None => assert!(false, "C06/C11: binding signature failed"),
            Some(sig) => {
                core::mem::forget(sig);
                assert!(check_digest(&rt, "binding"), "C11: digest signed for a (sub)key binding differs from RFC 9580 5.2.4");
            }
        }
    }
}
sproof!(c11_sign_subkey_binding_v4, 7, { binding::<false>(false, false) });
sproof!(c11_sign_subkey_binding_v6, 7, { binding::<false>(true, false) });
sproof!(c11_sign_primary_binding_v4, 7, { binding::<false>(false, true) });
sproof!(c11_sign_primary_binding_v6, 7, { binding::<false>(true, true) });
sproof!(c11_verify_subkey_binding_v4, 10, { binding::<true>(false, false) });
sproof!(c11_verify_subkey_binding_v6, 10, { binding::<true>(true, false) });
sproof!(c11_verify_primary_binding_v4, 10, { binding::<true>(false, true) });
sproof!(c11_verify_primary_binding_v6, 10, { binding::<true>(true, true) });

// ---------------------------------------------------------------------------------------------
/// opaque user id / attribute body for certifications
struct IdBody<const N: usize>([u8; N]);
impl<const N: usize> Serialize for IdBody<N> {
    fn to_writer<W: std::io::Write>(&self, w: &mut W) -> Result<()> {
        w.write_all(&self.0[..])?;
        Ok(())
    }
    fn write_len(&self) -> usize {
        N
    }
}

/// certifications 0x10..0x13, 0x30: key framing, then 0xB4 | 0xD1, len32, body.
fn cert<const WHICH: u8, const VERIFY: bool>(v6: bool) {
    let pk: u8 = kani::any();
    let t: u32 = kani::any();
    let (typ, tb) = match WHICH {
        0 => (SignatureType::CertGeneric, 0x10),
        1 => (SignatureType::CertPersona, 0x11),
        2 => (SignatureType::CertCasual, 0x12),
        3 => (SignatureType::CertPositive, 0x13),
        _ => (SignatureType::CertRevocation, 0x30),
    };
    let attr: bool = kani::any();
    let salt = SALT16;
    let (hashed, wire) = hashed_area::<true>(t, 101, false, kani::any(), kani::any());
    mk_cfg!(cfg, harr, ustore, v6, typ, pk, salt, hashed);
    let kv = if v6 { KeyVersion::V6 } else { KeyVersion::V4 };
    let signer = MockKey::<3>::new(kv, kani::any(), 7);
    let signee = MockKey::<3>::new(kv, kani::any(), 9);
    let id = IdBody::<3>(kani::any());
    let tag = if attr { Tag::UserAttribute } else { Tag::UserId };
    let mut rt = RefT::new();
    if v6 {
        rt.put_all(&salt);
    }
    rt.key(v6, &signee.body);
    rt.put(if attr { 0xd1 } else { 0xb4 });
    rt.be32(3);
    rt.put_all(&id.0);
    rt.sig_fields(v6, tb, pk, 8, &wire);
    if VERIFY {
        match rt.digest(HashAlgorithm::Sha256) {
            None => assert!(false),
            Some(w) => {
                expect_digest(&w);
                let vs = mk_sig(cfg, [w[0], w[1]]);
                assert!(
                    is_okf(vs.verify_third_party_certification(&*signee, &*signer, tag, &id)),
                    "C06/C11: certification over the RFC transcript rejected by verify_third_party_certification"
                );
                core::mem::forget(vs);
                core::mem::forget(w);
            }
        }
    } else {
        match okf(cfg.sign_certification_third_party(&*signer, &Password::empty(), &*signee, tag, &id)) {
            None => assert!(false, "C06/C11: certification failed"),
            Some(sig) => {
                core::mem::forget(sig);
                assert!(check_digest(&rt, "cert"), "C11: digest signed for a certification differs from RFC 9580 5.2.4");
            }
        }
    }
}
sproof!(c11_sign_cert_v4_generic, 7, { cert::<0, false>(false) });
sproof!(c11_sign_cert_v4_positive, 7, { cert::<3, false>(false) });
sproof!(c11_sign_cert_v4_revocation, 7, { cert::<4, false>(false) });
sproof!(c11_sign_cert_v6_positive, 7, { cert::<3, false>(true) });
sproof!(c11_sign_cert_v6_persona, 7, { cert::<1, false>(true) });
sproof!(c11_sign_cert_v4_casual, 7, { cert::<2, false>(false) });
sproof!(c11_verify_cert_v4_positive, 10, { cert::<3, true>(false) });
sproof!(c11_verify_cert_v6_generic, 10, { cert::<0, true>(true) });
sproof!(c11_verify_cert_v4_revocation, 10, { cert::<4, true>(false) });
// ---------------------------------------------------------------------------------------------
/// v3 signatures (verify only): transcript = document || type || creation time, no trailer
fn verify_v3<const L: usize>() {
    let data: [u8; L] = kani::any();
    let t: u32 = kani::any();
    let text: bool = false; // text-mode verify: see c06_*
    let typ = if text { SignatureType::Text } else { SignatureType::Binary };
    let halg = HashAlgorithm::Sha256;
    let key = MockKey::<2>::new(KeyVersion::V4, kani::any(), 7);
    let mut cfg = SignatureConfig::v3(typ, PublicKeyAlgorithm::Private100, halg, Timestamp::from_secs(t), key.kid);
    let mut hashed_store = core::mem::MaybeUninit::<[Subpacket; 1]>::uninit();
    cfg.hashed_subpackets = stack_vec_empty!(hashed_store, Subpacket);
    let mut unhashed_store = core::mem::MaybeUninit::<[Subpacket; 1]>::uninit();
    cfg.unhashed_subpackets = stack_vec_empty!(unhashed_store, Subpacket);
    let mut rt = RefT::new();
    let mut i = 0;
    while i < L {
        rt.put(data[i]);
        i += 1;
    }
    rt.put(0);
    rt.be32(t as usize);
    match rt.digest(halg) {
        None => assert!(false),
        Some(w) => {
            expect_digest(&w);
            let sig = mk_sig(cfg, [w[0], w[1]]);
            assert!(is_okf(sig.verify(&*key, &data[..])), "C11: v3 signature over the RFC transcript is rejected");
            core::mem::forget(sig);
            core::mem::forget(w);
        }
    }
}
sproof!(c11_verify_v3_2, 10, { verify_v3::<2>() });

// ---------------------------------------------------------------------------------------------
// hash_signature_data + trailer in isolation (the part shared by every sign_* / verify_*)
fn fields_only<const EXP: bool>(v6: bool) {
    let pk: u8 = kani::any();
    let t: u32 = kani::any();
    let tt: u8 = kani::any();
    let c: bool = kani::any();
    let tyb: u8 = kani::any();
    kani::assume(tt_ok::<EXP>(tt));
    let (hashed, wire) = hashed_area::<EXP>(t, tt, c, kani::any(), kani::any());
    let halg = HashAlgorithm::Sha256;
    let typ = SignatureType::from(tyb);
    let salt = SALT16;
    mk_cfg!(cfg, harr, ustore, v6, typ, pk, salt, hashed);
    let mut h = match okf(halg.new_hasher()) {
        Some(h) => h,
        None => return,
    };
    let must_fail = c && !EXP;
    kani::cover!(c, "critical bit set");
    match okf(cfg.hash_signature_data(&mut h)) {
        None => assert!(must_fail, "C11: hashing the signature fields failed"),
        Some(len) => {
            assert!(!must_fail, "C15: unknown critical hashed subpacket accepted");
            match okf(cfg.trailer(len)) {
                None => assert!(false, "C11: trailer failed"),
                Some(tr) => {
                    h.update(&tr);
                    core::mem::forget(tr);
                }
            }
            let got = h.finalize();
            let mut rt = RefT::new();
            rt.sig_fields(v6, tyb, pk, 8, &wire);
            match rt.digest(halg) {
                Some(w) => {
                    assert!(eq_bytes(&w, &got), "C11: hashed signature fields + trailer differ from RFC 9580 5.2.4");
                    core::mem::forget(w);
                }
                None => assert!(false),
            }
            core::mem::forget(got);
        }
    }
    core::mem::forget(cfg);
}
sproof!(c11_fields_v4, 7, { fields_only::<false>(false) });
sproof!(c11_fields_v4_exp, 7, { fields_only::<true>(false) });
sproof!(c11_fields_v6, 7, { fields_only::<false>(true) });

// =============================================================================================
// C02: soundness.  Situation A is what was signed (its RFC transcript digest is what the ideal signature
// primitive vouches for); situation B is what is presented for verification.  verify(B) = Ok must imply
// that every field agrees.  Under the injective transcript model the solver shows that no other B is accepted.

/// data signatures: document bytes, pk-alg octet, creation time, opaque subpacket (type, critical bit, body),
/// v6 salt bytes, signed-hash-value octets
fn c02_data<const L: usize, const EXP: bool>(v6: bool) {
    // A
    let doc_a: [u8; L] = kani::any();
    let pk_a: u8 = kani::any();
    let t_a: u32 = kani::any();
    let tt_a: u8 = kani::any();
    let c_a: bool = if EXP { kani::any() } else { false };
    let b_a: [u8; 2] = kani::any();
    let mut salt_a = SALT16;
    salt_a[3] = kani::any();
    let typ_a: u8 = kani::any(); // the signed type octet may be anything
    kani::assume(tt_ok::<EXP>(tt_a));
    let tb = t_a.to_be_bytes();
    let wire_a = [5, 2, tb[0], tb[1], tb[2], tb[3], 3, tt_a | ((c_a as u8) << 7), b_a[0], b_a[1]];
    let mut rt = RefT::new();
    if v6 {
        rt.put_all(&salt_a);
    }
    rt.put_all(&doc_a);
    rt.sig_fields(v6, typ_a, pk_a, 8, &wire_a);
    // B
    let doc_b: [u8; L] = kani::any();
    let pk_b: u8 = kani::any();
    let t_b: u32 = kani::any();
    let tt_b: u8 = kani::any();
    let c_b: bool = if EXP { kani::any() } else { false }; // (unknown critical subpackets are refused: c11_fields_*)
    let b_b: [u8; 2] = kani::any();
    let mut salt_b = SALT16;
    salt_b[3] = kani::any();
    // the signed-hash-value octets presented: either the true digest prefix or arbitrary octets (a flag rather
    // than a free pair, so that a counterexample of the completeness direction replays with the real hash)
    let shv_true: bool = kani::any();
    let shv_free: [u8; 2] = kani::any();
    kani::assume(tt_ok::<EXP>(tt_b));
    let (hashed, _wire_b) = hashed_area::<EXP>(t_b, tt_b, c_b, b_b[0], b_b[1]);
    mk_cfg!(cfg, harr, ustore, v6, SignatureType::Binary, pk_b, salt_b, hashed);
    let key = MockKey::<4>::new(if v6 { KeyVersion::V6 } else { KeyVersion::V4 }, kani::any(), 7);
    match rt.digest(HashAlgorithm::Sha256) {
        None => assert!(false),
        Some(w) => {
            expect_digest(&w);
            let shv = if shv_true { [w[0], w[1]] } else { shv_free };
            let vs = mk_sig(cfg, shv);
            let ok = is_okf(vs.verify(&*key, &doc_b[..]));
            kani::cover!(ok, "an untampered signature verifies");
            let all_equal = eq_bytes(&doc_a, &doc_b) && typ_a == 0 && pk_a == pk_b && t_a == t_b && tt_a == tt_b && c_a == c_b
                && b_a[0] == b_b[0] && b_a[1] == b_b[1] && (!v6 || salt_a[3] == salt_b[3]) && shv_true;
            if all_equal {
                assert!(ok, "C06/C02: an untampered data signature (every field as signed) is rejected by Signature::verify");
            }
            if ok {
                assert!(eq_bytes(&doc_a, &doc_b), "C02: verify accepted a different document");
                assert!(typ_a == 0, "C02: verify accepted a signature whose signed type octet differs");
                assert!(pk_a == pk_b, "C02: verify accepted a different public-key algorithm octet");
                assert!(t_a == t_b && tt_a == tt_b && c_a == c_b && b_a[0] == b_b[0] && b_a[1] == b_b[1],
                        "C02: verify accepted a modified hashed subpacket area");
                assert!(!v6 || salt_a[3] == salt_b[3], "C02: verify accepted a different salt");
                assert!(shv[0] == w[0] && shv[1] == w[1], "C02: verify accepted a wrong signed hash value prefix");
            }
            core::mem::forget(vs);
            core::mem::forget(w);
        }
    }
}
sproof!(c02_data_v4_2, 10, { c02_data::<2, true>(false) });
sproof!(c02_data_v4_2_other, 10, { c02_data::<2, false>(false) });
sproof!(c02_data_v6_2, 10, { c02_data::<2, true>(true) });

/// truncation / extension of the message: signed over LA bytes, presented LB bytes
fn c02_data_len<const LA: usize, const LB: usize>() {
    let doc_a: [u8; LA] = kani::any();
    let doc_b: [u8; LB] = kani::any();
    let t: u32 = kani::any();
    let tb = t.to_be_bytes();
    let wire = [5, 2, tb[0], tb[1], tb[2], tb[3], 3, 101, 1, 2];
    let mut rt = RefT::new();
    rt.put_all(&doc_a);
    rt.sig_fields(false, 0, 1, 8, &wire);
    let (hashed, _) = hashed_area::<true>(t, 101, false, 1, 2);
    let salt = SALT16;
    mk_cfg!(cfg, harr, ustore, false, SignatureType::Binary, 1u8, salt, hashed);
    let key = MockKey::<4>::new(KeyVersion::V4, kani::any(), 7);
    match rt.digest(HashAlgorithm::Sha256) {
        None => assert!(false),
        Some(w) => {
            expect_digest(&w);
            let vs = mk_sig(cfg, [w[0], w[1]]);
            assert!(!is_okf(vs.verify(&*key, &doc_b[..])), "C02: verify accepted a truncated or extended message");
            core::mem::forget(vs);
            core::mem::forget(w);
        }
    }
}
sproof!(c02_truncated_3_2, 10, { c02_data_len::<3, 2>() });
sproof!(c02_extended_2_3, 10, { c02_data_len::<2, 3>() });

/// direct-key signatures: signee key body / version, type octet
fn c02_key(v6: bool) {
    let body_a: [u8; 4] = kani::any();
    let body_b: [u8; 4] = kani::any();
    let kv6_a: bool = kani::any();
    let kv6_b: bool = kani::any();
    let typ_a: u8 = kani::any();
    let rev_b: bool = kani::any();
    let t: u32 = kani::any();
    let tb = t.to_be_bytes();
    let wire = [5, 2, tb[0], tb[1], tb[2], tb[3], 3, 101, 1, 2];
    let salt = SALT16;
    let mut rt = RefT::new();
    if v6 {
        rt.put_all(&salt);
    }
    rt.key(kv6_a, &body_a);
    rt.sig_fields(v6, typ_a, 1, 8, &wire);
    let (hashed, _) = hashed_area::<true>(t, 101, false, 1, 2);
    let typ_b = if rev_b { SignatureType::KeyRevocation } else { SignatureType::Key };
    mk_cfg!(cfg, harr, ustore, v6, typ_b, 1u8, salt, hashed);
    let signer = MockKey::<3>::new(if v6 { KeyVersion::V6 } else { KeyVersion::V4 }, kani::any(), 7);
    let signee = MockKey::<4>::new(if kv6_b { KeyVersion::V6 } else { KeyVersion::V4 }, body_b, 9);
    match rt.digest(HashAlgorithm::Sha256) {
        None => assert!(false),
        Some(w) => {
            expect_digest(&w);
            let vs = mk_sig(cfg, [w[0], w[1]]);
            let ok = is_okf(vs.verify_key_third_party(&*signee, &*signer));
            kani::cover!(ok);
            if ok {
                assert!(eq_bytes(&body_a, &body_b), "C02: key signature accepted over a different key body");
                assert!(kv6_a == kv6_b, "C02: key signature accepted over a key of another version (0x99/0x9B framing)");
                assert!(typ_a == if rev_b { 0x20 } else { 0x1f }, "C02: key signature accepted under a different signature type");
            }
            core::mem::forget(vs);
            core::mem::forget(w);
        }
    }
}
sproof!(c02_key_v4, 10, { c02_key(false) });
sproof!(c02_key_v6, 10, { c02_key(true) });

/// certifications: user id / attribute bytes, tag, signee key
fn c02_cert(v6: bool) {
    let id_a: [u8; 3] = kani::any();
    let id_b: [u8; 3] = kani::any();
    let attr_a: bool = kani::any();
    let attr_b: bool = kani::any();
    let body_a: [u8; 3] = kani::any();
    let body_b: [u8; 3] = kani::any();
    let t: u32 = kani::any();
    let tb = t.to_be_bytes();
    let wire = [5, 2, tb[0], tb[1], tb[2], tb[3], 3, 101, 1, 2];
    let salt = SALT16;
    let mut rt = RefT::new();
    if v6 {
        rt.put_all(&salt);
    }
    rt.key(v6, &body_a);
    rt.put(if attr_a { 0xd1 } else { 0xb4 });
    rt.be32(3);
    rt.put_all(&id_a);
    rt.sig_fields(v6, 0x13, 1, 8, &wire);
    let (hashed, _) = hashed_area::<true>(t, 101, false, 1, 2);
    mk_cfg!(cfg, harr, ustore, v6, SignatureType::CertPositive, 1u8, salt, hashed);
    let kv = if v6 { KeyVersion::V6 } else { KeyVersion::V4 };
    let signer = MockKey::<3>::new(kv, kani::any(), 7);
    let signee = MockKey::<3>::new(kv, body_b, 9);
    let id = IdBody::<3>(id_b);
    let tag = if attr_b { Tag::UserAttribute } else { Tag::UserId };
    match rt.digest(HashAlgorithm::Sha256) {
        None => assert!(false),
        Some(w) => {
            expect_digest(&w);
            let vs = mk_sig(cfg, [w[0], w[1]]);
            let ok = is_okf(vs.verify_third_party_certification(&*signee, &*signer, tag, &id));
            kani::cover!(ok);
            if ok {
                assert!(eq_bytes(&id_a, &id_b), "C02: certification accepted over a different user id / attribute");
                assert!(attr_a == attr_b, "C02: certification accepted with user id and attribute confused (0xB4/0xD1)");
                assert!(eq_bytes(&body_a, &body_b), "C02: certification accepted over a different key");
            }
            core::mem::forget(vs);
            core::mem::forget(w);
        }
    }
}
sproof!(c02_cert_v4, 10, { c02_cert(false) });
sproof!(c02_cert_v6, 10, { c02_cert(true) });

/// bindings: primary/subkey bodies and their order
fn c02_binding(back: bool) {
    let p_a: [u8; 3] = kani::any();
    let s_a: [u8; 3] = kani::any();
    let p_b: [u8; 3] = kani::any();
    let s_b: [u8; 3] = kani::any();
    let t: u32 = kani::any();
    let tb = t.to_be_bytes();
    let wire = [5, 2, tb[0], tb[1], tb[2], tb[3], 3, 101, 1, 2];
    let salt = SALT16;
    let mut rt = RefT::new();
    rt.key(false, &p_a);
    rt.key(false, &s_a);
    rt.sig_fields(false, if back { 0x19 } else { 0x18 }, 1, 8, &wire);
    let (hashed, _) = hashed_area::<true>(t, 101, false, 1, 2);
    let typ = if back { SignatureType::KeyBinding } else { SignatureType::SubkeyBinding };
    mk_cfg!(cfg, harr, ustore, false, typ, 1u8, salt, hashed);
    let primary = MockKey::<3>::new(KeyVersion::V4, p_b, 7);
    let sub = MockKey::<3>::new(KeyVersion::V4, s_b, 9);
    match rt.digest(HashAlgorithm::Sha256) {
        None => assert!(false),
        Some(w) => {
            expect_digest(&w);
            let vs = mk_sig(cfg, [w[0], w[1]]);
            let ok = if back {
                is_okf(vs.verify_primary_key_binding(&*sub, &*primary))
            } else {
                is_okf(vs.verify_subkey_binding(&*primary, &*sub))
            };
            kani::cover!(ok);
            if ok {
                assert!(eq_bytes(&p_a, &p_b) && eq_bytes(&s_a, &s_b), "C02: binding accepted over different (or swapped) keys");
            }
            core::mem::forget(vs);
            core::mem::forget(w);
        }
    }
}
sproof!(c02_subkey_binding_v4, 10, { c02_binding(false) });
sproof!(c02_primary_binding_v4, 10, { c02_binding(true) });

// =============================================================================================
// C15: acceptance rules on the signature path.

/// v6 keys only make/verify v6 signatures and vice versa: for every (key version, signature version) pair
fn c15_version_alignment(sig_v6: bool) {
    let kvb: u8 = kani::any();
    kani::assume(kvb == 4 || kvb == 6);
    let kv = if kvb == 6 { KeyVersion::V6 } else { KeyVersion::V4 };
    let t: u32 = kani::any();
    let tb = t.to_be_bytes();
    let wire = [5, 2, tb[0], tb[1], tb[2], tb[3], 3, 101, 1, 2];
    let salt = SALT16;
    let doc = [1u8, 2];
    let mut rt = RefT::new();
    if sig_v6 {
        rt.put_all(&salt);
    }
    rt.put_all(&doc);
    rt.sig_fields(sig_v6, 0, 1, 8, &wire);
    let (hashed, _) = hashed_area::<true>(t, 101, false, 1, 2);
    mk_cfg!(cfg, harr, ustore, sig_v6, SignatureType::Binary, 1u8, salt, hashed);
    // fingerprint/key id of the mock depend on its version
    let key = MockKey::<4>::new(kv, kani::any(), 7);
    match rt.digest(HashAlgorithm::Sha256) {
        None => assert!(false),
        Some(w) => {
            expect_digest(&w);
            let vs = mk_sig(cfg, [w[0], w[1]]);
            let ok = is_okf(vs.verify(&*key, &doc[..]));
            kani::cover!(ok);
            kani::cover!(!ok);
            assert!(ok == ((kvb == 6) == sig_v6), "C15: signature accepted/rejected against the v6<->v6 alignment rule");
            core::mem::forget(vs);
            core::mem::forget(w);
        }
    }
}
sproof!(c15_align_sig_v4, 10, { c15_version_alignment(false) });
sproof!(c15_align_sig_v6, 10, { c15_version_alignment(true) });

/// signing side: sign() refuses a config whose version does not match the key version
fn c15_sign_alignment(sig_v6: bool) {
    // only the mismatching pair (concrete: a symbolic key version made the failing path too expensive)
    let kv = if sig_v6 { KeyVersion::V4 } else { KeyVersion::V6 };
    let salt = SALT16;
    let mut cfg = if sig_v6 {
        SignatureConfig::v6_with_salt(SignatureType::Binary, PublicKeyAlgorithm::RSA, HashAlgorithm::Sha256, salt.to_vec())
    } else {
        SignatureConfig::v4(SignatureType::Binary, PublicKeyAlgorithm::RSA, HashAlgorithm::Sha256)
    };
    let mut hstore = core::mem::MaybeUninit::<[Subpacket; 1]>::uninit();
    cfg.hashed_subpackets = stack_vec_empty!(hstore, Subpacket);
    let mut ustore = core::mem::MaybeUninit::<[Subpacket; 1]>::uninit();
    cfg.unhashed_subpackets = stack_vec_empty!(ustore, Subpacket);
    let key = MockKey::<4>::new(kv, kani::any(), 7);
    let doc = [1u8, 2];
    let r = okf(cfg.sign(&*key, &Password::empty(), &doc[..]));
    assert!(r.is_none(), "C15: a signature whose version does not match the key version was produced");
}
sproof!(c15_sign_align_v4, 7, { c15_sign_alignment(false) });
sproof!(c15_sign_align_v6, 7, { c15_sign_alignment(true) });

/// issuer binding: a signature naming an issuer key id verifies only under a key with that id
fn issuer_keyid_case() {
    let kid_sig: [u8; 8] = kani::any();
    let kid_key: [u8; 8] = kani::any();
    let t: u32 = kani::any();
    let tb = t.to_be_bytes();
    let wire = [5, 2, tb[0], tb[1], tb[2], tb[3], 9, 16, kid_sig[0], kid_sig[1], kid_sig[2], kid_sig[3], kid_sig[4], kid_sig[5], kid_sig[6], kid_sig[7]];
    let doc = [1u8, 2];
    let mut rt = RefT::new();
    rt.put_all(&doc);
    rt.sig_fields(false, 0, 1, 8, &wire);
    let sp1 = Subpacket { is_critical: false, data: SubpacketData::SignatureCreationTime(Timestamp::from_secs(t)), len: SubpacketLength::One(5) };
    let sp2 = Subpacket { is_critical: false, data: SubpacketData::IssuerKeyId(KeyId::new(kid_sig)), len: SubpacketLength::One(9) };
    let salt = SALT16;
    mk_cfg!(cfg, harr, ustore, false, SignatureType::Binary, 1u8, salt, [sp1, sp2]);
    let mut key = MockKey::<4>::new(KeyVersion::V4, kani::any(), 7);
    key.kid = KeyId::new(kid_key);
    match rt.digest(HashAlgorithm::Sha256) {
        None => assert!(false),
        Some(w) => {
            expect_digest(&w);
            let vs = mk_sig(cfg, [w[0], w[1]]);
            let ok = is_okf(vs.verify(&*key, &doc[..]));
            kani::cover!(ok);
            assert!(ok == eq_bytes(&kid_sig, &kid_key), "C02/C13: signature with an issuer key id accepted under a key with another id (or rejected under its own)");
            core::mem::forget(vs);
            core::mem::forget(w);
        }
    }
}
sproof!(c15_issuer_keyid, 10, { issuer_keyid_case() });

/// certification alignment: the rule binds the *signer's* key version to the signature version; the
/// signee may be of either version (a v4 key may certify a v6 key's user id and vice versa)
fn c15_cert_alignment(sig_v6: bool) {
    let signer_v6: bool = kani::any();
    let signee_v6: bool = kani::any();
    let body: [u8; 3] = kani::any();
    let id_b: [u8; 3] = kani::any();
    let t: u32 = kani::any();
    let tb = t.to_be_bytes();
    let wire = [5, 2, tb[0], tb[1], tb[2], tb[3], 3, 101, 1, 2];
    let salt = SALT16;
    let mut rt = RefT::new();
    if sig_v6 {
        rt.put_all(&salt);
    }
    rt.key(signee_v6, &body);
    rt.put(0xb4);
    rt.be32(3);
    rt.put_all(&id_b);
    rt.sig_fields(sig_v6, 0x13, 1, 8, &wire);
    let (hashed, _) = hashed_area::<true>(t, 101, false, 1, 2);
    mk_cfg!(cfg, harr, ustore, sig_v6, SignatureType::CertPositive, 1u8, salt, hashed);
    let signer = MockKey::<3>::new(if signer_v6 { KeyVersion::V6 } else { KeyVersion::V4 }, kani::any(), 7);
    let signee = MockKey::<3>::new(if signee_v6 { KeyVersion::V6 } else { KeyVersion::V4 }, body, 9);
    let id = IdBody::<3>(id_b);
    match rt.digest(HashAlgorithm::Sha256) {
        None => assert!(false),
        Some(w) => {
            expect_digest(&w);
            let vs = mk_sig(cfg, [w[0], w[1]]);
            let ok = is_okf(vs.verify_third_party_certification(&*signee, &*signer, Tag::UserId, &id));
            kani::cover!(ok && signee_v6 != signer_v6, "cross-version third-party certification accepted");
            assert!(ok == (signer_v6 == sig_v6), "C15: certification accepted/rejected against the signer-version <-> signature-version rule");
            core::mem::forget(vs);
            core::mem::forget(w);
        }
    }
}
sproof!(c15_align_cert_v4sig, 10, { c15_cert_alignment(false) });
sproof!(c15_align_cert_v6sig, 10, { c15_cert_alignment(true) });

// ---------------------------------------------------------------------------------------------
// hashed area = creation time + one *known* subpacket kind (V concrete per instance), against the RFC 9580
// 5.2.3.x wire form written out by hand: length octet, type octet (| 0x80 if critical), body.
fn fields_known<const V: u8>(v6: bool) {
    let t: u32 = kani::any();
    let c: bool = kani::any();
    let x: [u8; 4] = kani::any();
    let kid: [u8; 8] = kani::any();
    let fpb: u8 = kani::any();
    let mut wire = [0u8; 48];
    let tb = t.to_be_bytes();
    wire[0] = 5;
    wire[1] = 2;
    wire[2] = tb[0];
    wire[3] = tb[1];
    wire[4] = tb[2];
    wire[5] = tb[3];
    let crit = (c as u8) << 7;
    let (data, blen): (SubpacketData, usize) = match V {
        // signature expiration time (3), 4 octets
        0 => {
            wire[6] = 5;
            wire[7] = 3 | crit;
            wire[8..12].copy_from_slice(&x);
            (SubpacketData::SignatureExpirationTime(crate::types::Duration::from_secs(u32::from_be_bytes(x))), 4)
        }
        // key expiration time (9)
        1 => {
            wire[6] = 5;
            wire[7] = 9 | crit;
            wire[8..12].copy_from_slice(&x);
            (SubpacketData::KeyExpirationTime(crate::types::Duration::from_secs(u32::from_be_bytes(x))), 4)
        }
        // issuer key id (16), 8 octets
        2 => {
            wire[6] = 9;
            wire[7] = 16 | crit;
            wire[8..16].copy_from_slice(&kid);
            (SubpacketData::IssuerKeyId(KeyId::new(kid)), 8)
        }
        // exportable certification (4), revocable (7), primary user id (25): one boolean octet
        3 => {
            wire[6] = 2;
            wire[7] = 4 | crit;
            wire[8] = (x[0] & 1);
            (SubpacketData::ExportableCertification(x[0] & 1 == 1), 1)
        }
        4 => {
            wire[6] = 2;
            wire[7] = 7 | crit;
            wire[8] = (x[0] & 1);
            (SubpacketData::Revocable(x[0] & 1 == 1), 1)
        }
        5 => {
            wire[6] = 2;
            wire[7] = 25 | crit;
            wire[8] = (x[0] & 1);
            (SubpacketData::IsPrimary(x[0] & 1 == 1), 1)
        }
        // trust signature (5): depth, amount
        6 => {
            wire[6] = 3;
            wire[7] = 5 | crit;
            wire[8] = x[0];
            wire[9] = x[1];
            (SubpacketData::TrustSignature(x[0], x[1]), 2)
        }
        // issuer fingerprint (33): version octet + fingerprint, version must match the signature version
        _ => {
            if v6 {
                wire[6] = 34;
                wire[7] = 33 | crit;
                wire[8] = 6;
                let mut k = 0;
                while k < 32 {
                    wire[9 + k] = fpb;
                    k += 1;
                }
                (SubpacketData::IssuerFingerprint(Fingerprint::V6([fpb; 32])), 33)
            } else {
                wire[6] = 22;
                wire[7] = 33 | crit;
                wire[8] = 4;
                let mut k = 0;
                while k < 20 {
                    wire[9 + k] = fpb;
                    k += 1;
                }
                (SubpacketData::IssuerFingerprint(Fingerprint::V4([fpb; 20])), 21)
            }
        }
    };
    let total = 6 + 2 + blen;
    let sp1 = Subpacket { is_critical: false, data: SubpacketData::SignatureCreationTime(Timestamp::from_secs(t)), len: SubpacketLength::One(5) };
    let sp2 = Subpacket { is_critical: c, data, len: SubpacketLength::One((blen + 1) as u8) };
    let salt = SALT16;
    mk_cfg!(cfg, harr, ustore, v6, SignatureType::Binary, 1u8, salt, [sp1, sp2]);
    let halg = HashAlgorithm::Sha256;
    let mut h = match okf(halg.new_hasher()) {
        Some(h) => h,
        None => return,
    };
    match okf(cfg.hash_signature_data(&mut h)) {
        None => assert!(false, "C11: hashing a known (even critical) subpacket failed"),
        Some(len) => {
            match okf(cfg.trailer(len)) {
                None => assert!(false),
                Some(tr) => {
                    h.update(&tr);
                    core::mem::forget(tr);
                }
            }
            let got = h.finalize();
            let mut rt = RefT::new();
            rt.sig_fields(v6, 0, 1, 8, &wire[..total]);
            match rt.digest(halg) {
                Some(w) => {
                    assert!(eq_bytes(&w, &got), "C11: hashed area with a known subpacket differs from its RFC 9580 5.2.3 wire form");
                    core::mem::forget(w);
                }
                None => assert!(false),
            }
            core::mem::forget(got);
        }
    }
    core::mem::forget(cfg);
}
sproof!(c11_sp_sig_expiration, 36, { fields_known::<0>(false) });
sproof!(c11_sp_key_expiration, 36, { fields_known::<1>(false) });
sproof!(c11_sp_issuer_keyid, 36, { fields_known::<2>(false) });
sproof!(c11_sp_exportable, 36, { fields_known::<3>(false) });
sproof!(c11_sp_revocable, 36, { fields_known::<4>(true) });
sproof!(c11_sp_primary_uid, 36, { fields_known::<5>(false) });
sproof!(c11_sp_trust, 36, { fields_known::<6>(false) });
sproof!(c11_sp_issuer_fpr_v4, 36, { fields_known::<7>(false) });
sproof!(c11_sp_issuer_fpr_v6, 36, { fields_known::<7>(true) });

/// C15: an issuer fingerprint whose key version does not match the signature version is refused
fn issuer_fpr_mismatch(v6: bool) {
    let t: u32 = kani::any();
    let fpb: u8 = kani::any();
    // the *other* version's fingerprint
    let data = if v6 { SubpacketData::IssuerFingerprint(Fingerprint::V4([fpb; 20])) } else { SubpacketData::IssuerFingerprint(Fingerprint::V6([fpb; 32])) };
    let blen = if v6 { 21 } else { 33 };
    let sp1 = Subpacket { is_critical: false, data: SubpacketData::SignatureCreationTime(Timestamp::from_secs(t)), len: SubpacketLength::One(5) };
    let sp2 = Subpacket { is_critical: false, data, len: SubpacketLength::One((blen + 1) as u8) };
    let salt = SALT16;
    mk_cfg!(cfg, harr, ustore, v6, SignatureType::Binary, 1u8, salt, [sp1, sp2]);
    let mut h = match okf(HashAlgorithm::Sha256.new_hasher()) {
        Some(h) => h,
        None => return,
    };
    assert!(!is_okf(cfg.hash_signature_data(&mut h)), "C15: issuer fingerprint of a different key version accepted in the hashed area");
    core::mem::forget(cfg);
}
sproof!(c15_issuer_fpr_mismatch_v4sig, 36, { issuer_fpr_mismatch(false) });
sproof!(c15_issuer_fpr_mismatch_v6sig, 36, { issuer_fpr_mismatch(true) });
