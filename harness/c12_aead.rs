// C12 / C01 / C03 (writer side): the SEIPDv2 byte stream produced by aead::StreamEncryptor is exactly
//   chunk_0 | tag(nonce = iv||be64(0), ad = info) | chunk_1 | tag(iv||be64(1), info) | ... |
//   final tag(nonce = iv||be64(n), ad = info || be64(total octets), empty plaintext)
// with info = D2 02 cipher aead chunk-size-octet (RFC 9580 5.13.2).
// Model: the AEAD primitive is replaced by "identity cipher + tag = f(nonce index octets, ad length, ad tail)"
// (kani::stub of AeadAlgorithm::encrypt_in_place); SHA-256's compression function is a no-op so that the
// HKDF inside aead_setup_rfc9580 is cheap — the reference takes key and IV from the same call, so the
// assertion is independent of their values.  The reference calls encrypt_in_place itself, i.e. natively
// (no stubs) the same statement is evaluated with real AES-OCB/GCM/EAX and real HKDF.
#![allow(unused, dead_code, unsafe_code, static_mut_refs)]
use std::io::Read;

use bytes::BytesMut;

use super::__verif_common::*;
use crate::crypto::aead::{aead_setup_rfc9580, AeadAlgorithm, ChunkSize, Error, StreamEncryptor};
use crate::crypto::sym::SymmetricKeyAlgorithm;

pub fn stub_compress(_state: &mut [u32; 8], _blocks: &[generic_array::GenericArray<u8, generic_array::typenum::U64>]) {}

/// model tag: 16 octets = nonce[len-8..] (the chunk index) || ad.len() || last 7 octets of ad
fn model_tag(nonce: &[u8], ad: &[u8]) -> [u8; 16] {
    let mut t = [0u8; 16];
    let n = nonce.len();
    let mut i = 0;
    while i < 8 {
        t[i] = nonce[n - 8 + i];
        i += 1;
    }
    t[8] = ad.len() as u8;
    let k = ad.len();
    let mut j = 0;
    while j < 7 {
        if k >= 7 {
            t[9 + j] = ad[k - 7 + j];
        } else if j < k {
            t[9 + j] = ad[j];
        }
        j += 1;
    }
    t
}
pub fn stub_enc(
    _s: &AeadAlgorithm,
    _a: &SymmetricKeyAlgorithm,
    _key: &[u8],
    nonce: &[u8],
    ad: &[u8],
    buffer: &mut BytesMut,
) -> Result<(), Error> {
    let t = model_tag(nonce, ad);
    buffer.extend_from_slice(&t);
    Ok(())
}

/// model of aead_setup_rfc9580 for the layout harnesses (HKDF itself costs ~700 s of symbolic execution even
/// with a no-op compression function): info as the RFC defines it, fixed key, zero IV.  The real function
/// is checked on its own in c12_aead_setup_info.
pub fn stub_setup(sym_alg: SymmetricKeyAlgorithm, aead: AeadAlgorithm, chunk_size: ChunkSize, _salt: &[u8], _ikm: &[u8]) -> ([u8; 5], zeroize::Zeroizing<Vec<u8>>, Vec<u8>) {
    let info = [0xD2, 0x02, sym_alg.into(), aead.into(), chunk_size.into()];
    (info, zeroize::Zeroizing::new(vec![7u8; 16]), vec![0u8; aead.nonce_size()])
}

macro_rules! aproof {
    ($name:ident, $uw:expr, $body:block) => {
        #[kani::proof]
        #[kani::unwind($uw)]
        #[kani::stub(std::fmt::format, crate::__verif_common::stub_format)]
        #[kani::stub(snafu::backtrace_collection_enabled, crate::__verif_common::stub_bt)]
        #[kani::stub(crate::crypto::aead::aead_setup_rfc9580, stub_setup)]
        #[kani::stub(crate::crypto::aead::AeadAlgorithm::encrypt_in_place, stub_enc)]
        fn $name() $body
    };
}

/// plaintext of N octets (filler with symbolic octets at the chunk edges), chunk size 64
fn encryptor_layout<const N: usize, const OUT: usize>(aead: AeadAlgorithm) {
    let mut pt = [0x5au8; N];
    if N > 0 {
        pt[0] = kani::any();
        pt[N - 1] = kani::any();
    }
    if N > 64 {
        pt[63] = kani::any();
        pt[64] = kani::any();
    }
    let key = [7u8; 16];
    let salt = [1u8; 32];
    let sym = SymmetricKeyAlgorithm::AES128;
    let chunk = ChunkSize::C64B;
    // reference schedule
    let (info, mkey, nonce0) = aead_setup_rfc9580(sym, aead, chunk, &salt[..], &key[..]);
    assert!(info == [0xD2, 0x02, 7, u8::from(aead), 0], "C12: SEIPDv2 info octets are not D2 02 cipher aead chunk");
    assert!(nonce0.len() == aead.nonce_size(), "C12: nonce length");
    let nchunks = (N + 63) / 64;
    let mut exp = [0u8; OUT];
    let mut n = 0usize;
    let mut idx = 0u64;
    let mut off = 0usize;
    while off < N {
        let len = if N - off < 64 { N - off } else { 64 };
        let mut nonce = nonce0.clone();
        let l = nonce.len();
        nonce[l - 8..].copy_from_slice(&idx.to_be_bytes());
        let mut buf = BytesMut::with_capacity(96);
        buf.extend_from_slice(&pt[off..off + len]);
        assert!(aead.encrypt_in_place(&sym, &mkey, &nonce, &info, &mut buf).is_ok());
        exp[n..n + buf.len()].copy_from_slice(&buf);
        n += buf.len();
        core::mem::forget(buf);
        core::mem::forget(nonce);
        off += len;
        idx += 1;
    }
    {
        let mut nonce = nonce0.clone();
        let l = nonce.len();
        nonce[l - 8..].copy_from_slice(&idx.to_be_bytes());
        let mut ad = [0u8; 13];
        ad[..5].copy_from_slice(&info);
        ad[5..].copy_from_slice(&(N as u64).to_be_bytes());
        let mut buf = BytesMut::with_capacity(32);
        assert!(aead.encrypt_in_place(&sym, &mkey, &nonce, &ad, &mut buf).is_ok());
        exp[n..n + buf.len()].copy_from_slice(&buf);
        n += buf.len();
        core::mem::forget(buf);
        core::mem::forget(nonce);
    }
    assert!(n == N + 16 * (nchunks + 1));
    // implementation
    let mut enc = match okf(StreamEncryptor::new(sym, aead, chunk, &key[..], &salt, &pt[..])) {
        Some(e) => e,
        None => {
            assert!(false, "C12: StreamEncryptor::new failed");
            return;
        }
    };
    let mut got = [0u8; OUT];
    let mut m = 0usize;
    let mut rounds = 0;
    loop {
        match okf(enc.read(&mut got[m..])) {
            None => {
                assert!(false, "C01/C12: encryptor returned an error");
                break;
            }
            Some(0) => break,
            Some(r) => m += r,
        }
        rounds += 1;
        assert!(rounds <= nchunks + 2, "C09: encryptor needs more reads than chunks + final tag");
    }
    assert!(m == n, "C12/C01: SEIPDv2 stream length differs from chunks + (n+1) tags");
    let mut i = 0;
    while i < OUT {
        if i < n {
            assert!(got[i] == exp[i], "C12/C03: SEIPDv2 stream differs from the RFC 9580 chunk/tag schedule");
        }
        i += 1;
    }
    core::mem::forget(enc);
    core::mem::forget(mkey);
    core::mem::forget(nonce0);
}
aproof!(c12_aead_enc_0, 70, { encryptor_layout::<0, 32>(AeadAlgorithm::Ocb) });
aproof!(c12_aead_enc_1, 70, { encryptor_layout::<1, 40>(AeadAlgorithm::Ocb) });
aproof!(c12_aead_enc_64, 120, { encryptor_layout::<64, 100>(AeadAlgorithm::Gcm) });
aproof!(c12_aead_enc_65, 130, { encryptor_layout::<65, 120>(AeadAlgorithm::Eax) });
aproof!(c12_aead_enc_70, 140, { encryptor_layout::<70, 120>(AeadAlgorithm::Ocb) });
aproof!(c12_aead_enc_128, 200, { encryptor_layout::<128, 180>(AeadAlgorithm::Gcm) });

/// chunk-size octet -> byte size, for all 17 legal octets (arithmetic)
vproof!(c12_chunk_size_octets, 4, {
    let c: u8 = kani::any();
    match ChunkSize::try_from(c) {
        Ok(cs) => {
            assert!(c <= 16, "C12: chunk size octet above 16 accepted");
            assert!(cs.as_byte_size() == 1u32 << (c as u32 + 6), "C12: chunk size is not 2^(c+6)");
            assert!(u8::from(cs) == c);
        }
        Err(e) => {
            core::mem::forget(e);
            assert!(c > 16, "C12: legal chunk size octet rejected");
        }
    }
});

/// the real key-schedule function: info octets, key and nonce lengths, IV occupies the nonce prefix and the
/// last 8 octets (chunk index) start at zero — for every cipher with a key size and the three AEAD modes
#[kani::proof]
#[kani::unwind(70)]
#[kani::stub(std::fmt::format, crate::__verif_common::stub_format)]
#[kani::stub(snafu::backtrace_collection_enabled, crate::__verif_common::stub_bt)]
#[kani::stub(sha2::sha256::compress256, stub_compress)]
fn c12_aead_setup_info() {
    let a: u8 = kani::any();
    kani::assume(a >= 1 && a <= 3);
    let cs: u8 = kani::any();
    kani::assume(cs <= 16);
    let aead = AeadAlgorithm::from(a);
    let chunk = match ChunkSize::try_from(cs) {
        Ok(c) => c,
        Err(e) => {
            core::mem::forget(e);
            return;
        }
    };
    let key = [7u8; 32];
    let salt = [1u8; 32];
    let (info, mkey, nonce) = aead_setup_rfc9580(SymmetricKeyAlgorithm::AES256, aead, chunk, &salt[..], &key[..]);
    assert!(info == [0xD2, 0x02, 9, a, cs], "C12: SEIPDv2 info octets are not D2 02 cipher aead chunk");
    assert!(mkey.len() == 32, "C12: message key length");
    assert!(nonce.len() == aead.nonce_size(), "C12: nonce length");
    let l = nonce.len();
    let mut k = 0;
    while k < 8 {
        assert!(nonce[l - 8 + k] == 0, "C12: chunk index part of the initial nonce is not zero");
        k += 1;
    }
    core::mem::forget(mkey);
    core::mem::forget(nonce);
}
