// C14 (b,c): in-memory normalisation and the streaming NormalizedReader (child module of
// normalize_lines.rs: `replace_newlines` and the reader's fields are private).
#![allow(unused, dead_code)]
use std::io::Read;

use super::*;
use crate::__verif_common::*;
use crate::line_writer::LineBreak;

fn ref_canon<const K: usize>(data: &[u8], mut prev_cr: bool, exp: &mut Pack<K>) {
    let mut i = 0;
    while i < data.len() {
        let c = data[i];
        if c == b'\n' && !prev_cr {
            exp.push1(b'\r');
        }
        exp.push1(c);
        prev_cr = c == b'\r';
        i += 1;
    }
}

/// replace_newlines(x, CRLF) == reference canonical form, for every byte string of length L
fn replace_case<const L: usize>() {
    let data: [u8; L] = kani::any();
    let out = replace_newlines(&data[..], b"\r\n");
    let mut exp = Pack::<1>::default();
    ref_canon(&data[..], false, &mut exp);
    let got = Pack::<1>::of12(&out);
    if L >= 2 {
        kani::cover!(data[0] == b'\r' && data[1] == b'\n', "maybe: CRLF kept");
    }
    if L >= 1 {
        kani::cover!(data[L - 1] == b'\n', "maybe: ends in LF");
    }
    assert!(got.len == exp.len, "C14 replace_newlines: canonical length differs from reference");
    assert!(got.same(&exp), "C14 replace_newlines: canonical bytes differ from reference");
    core::mem::forget(out);
}

macro_rules! rep {
    ($name:ident, $l:expr, $uw:expr) => {
        vproof!($name, $uw, { replace_case::<$l>() });
    };
}
rep!(c14_replace_0, 0, 3);
rep!(c14_replace_1, 1, 3);
rep!(c14_replace_2, 2, 4);
rep!(c14_replace_3, 3, 5);
rep!(c14_replace_4, 4, 6);
rep!(c14_replace_5, 5, 7);

/// NormalizedReader over every source of N arbitrary bytes, in a build where the reader's internal buffer is
/// scaled from 512 to 4 octets (run.py substitution `BUF_SIZE = 1024` -> `8`; the buffer-edge logic is
/// written in terms of BUF_SIZE, so the CR|LF-across-the-edge and trailing-CR cases occur at offset 4
/// instead of 512).  Output must equal the byte-at-a-time reference.
fn reader_case<const N: usize, const OUT: usize>() {
    assert!(BUF_SIZE == 8, "scaled build expected");
    let src: [u8; N] = kani::any();
    let mut rd = NormalizedReader::new(&src[..], LineBreak::Crlf);
    let mut out = [0u8; OUT];
    let mut n = 0;
    let mut calls = 0;
    loop {
        match okf(rd.read(&mut out[n..])) {
            None => {
                assert!(false, "C14 reader: error on an in-memory source");
                return;
            }
            Some(0) => break,
            Some(k) => n += k,
        }
        calls += 1;
        assert!(calls <= N / 4 + 3, "C14/C09 reader: too many reads");
    }
    let mut exp = Pack::<1>::default();
    ref_canon(&src[..], false, &mut exp);
    if N >= 5 {
        kani::cover!(src[3] == b'\r' && src[4] == b'\n', "CR | LF straddling the internal buffer edge");
    }
    if N == 4 {
        kani::cover!(src[3] == b'\r', "source ends with CR exactly at the buffer edge");
    }
    assert!(n == exp.len, "C14 reader: canonical length differs from reference");
    let got = Pack::<1>::of12(&out[..n]);
    assert!(got.same(&exp), "C14 reader: canonical bytes differ from reference");
    core::mem::forget(rd);
}
vproof!(c14_reader_3, 8, { reader_case::<3, 8>() });
vproof!(c14_reader_4, 8, { reader_case::<4, 10>() });
vproof!(c14_reader_5, 8, { reader_case::<5, 12>() });

/// byte of class d: 0 = any octet other than CR/LF (symbolic), 1 = CR, 2 = LF
fn cls(d: u32) -> u8 {
    match d {
        0 => {
            let b: u8 = kani::any();
            kani::assume(b != b'\r' && b != b'\n');
            b
        }
        1 => b'\r',
        _ => b'\n',
    }
}

/// buffer whose first R slots follow the base-3 class pattern `p`, the rest arbitrary (stale) octets
fn pat_buf<const R: usize>(p: u32) -> [u8; 4] {
    let mut buf: [u8; 4] = kani::any();
    if R > 0 {
        buf[0] = cls(p % 3);
    }
    if R > 1 {
        buf[1] = cls((p / 3) % 3);
    }
    if R > 2 {
        buf[2] = cls((p / 9) % 3);
    }
    if R > 3 {
        buf[3] = cls((p / 27) % 3);
    }
    buf
}

fn last_of<const LASTCR: bool>() -> u8 {
    if LASTCR {
        b'\r'
    } else {
        let b: u8 = kani::any();
        kani::assume(b != b'\r');
        b
    }
}

/// Inductive step of the streaming reader (scaled build, internal buffer 4 octets): `cleanup_buffer(R, last)`
/// for EVERY {CR, LF, other} class pattern of the R filled slots (the patterns are enumerated by the loop so
/// that every buffer length stays concrete - with symbolic lengths CBMC's array post-processing runs out of
/// 45 GB), every value of the "other" octets and of the stale slots, and every carried octet of the given
/// class.  Spec: the step emits canon(pending-CR ++ chunk) where a CR in the last slot of a FULL buffer is held
/// back for the next step.  Chaining steps gives canon(whole input) for sources of any length, provided
/// fill_buffer delivers consecutive full chunks (c09_fill_buffer_*) and the carried octet is the last slot of
/// the previous full chunk (c14_reader_fill_*).
fn reader_step<const R: usize, const LASTCR: bool>() {
    assert!(BUF_SIZE == 8, "scaled build expected");
    let total = [1u32, 3, 9, 27, 81][R];
    let src: [u8; 0] = [];
    let mut p = 0;
    while p < total {
        let buf = pat_buf::<R>(p);
        let last = last_of::<LASTCR>();
        let mut rd = NormalizedReader {
            line_break: LineBreak::Crlf,
            source: &src[..],
            in_buffer: buf,
            replaced: BytesMut::with_capacity(BUF_SIZE),
            is_done: R < 4,
        };
        rd.cleanup_buffer(R, last);
        let held = R == 4 && buf[3] == b'\r';
        let end = if held { 3 } else { R };
        let mut exp = Pack::<1>::default();
        if LASTCR {
            exp.push1(b'\r');
        }
        ref_canon(&buf[..end], LASTCR, &mut exp);
        let got = Pack::<1>::of12(&rd.replaced[..]);
        assert!(got.len == exp.len, "C14 reader step: canonical length differs from reference");
        assert!(got.same(&exp), "C14 reader step: canonical bytes differ from reference");
        core::mem::forget(rd);
        p += 1;
    }
}

/// Glue: one real `fill_buffer()` from a previous buffer whose last slot has the given class over a source of
/// N remaining octets (every class pattern of the octets that fit): is_done is set iff the source could not
/// fill the buffer, the right number of source octets is consumed, and the emitted bytes are the step spec
/// with the carried octet = last slot of the PREVIOUS buffer.
fn reader_fill<const N: usize, const R: usize, const LASTCR: bool>() {
    assert!(BUF_SIZE == 8, "scaled build expected");
    let total = [1u32, 3, 9, 27, 81][R];
    let mut p = 0;
    while p < total {
        let mut prev: [u8; 4] = kani::any();
        prev[3] = last_of::<LASTCR>();
        let chunk = pat_buf::<R>(p);
        let mut src: [u8; N] = kani::any();
        if R > 0 {
            src[0] = chunk[0];
        }
        if R > 1 {
            src[1] = chunk[1];
        }
        if R > 2 {
            src[2] = chunk[2];
        }
        if R > 3 {
            src[3] = chunk[3];
        }
        let mut rd = NormalizedReader {
            line_break: LineBreak::Crlf,
            source: &src[..],
            in_buffer: prev,
            replaced: BytesMut::with_capacity(BUF_SIZE),
            is_done: false,
        };
        let ok = is_okf(rd.fill_buffer());
        assert!(ok, "C14 reader: error on an in-memory source");
        assert!(rd.is_done == (N < 4), "C14 reader: end of source detected wrongly");
        assert!(rd.source.len() == N - R, "C14 reader: fill consumed a wrong number of source octets");
        let held = R == 4 && chunk[3] == b'\r';
        let end = if held { 3 } else { R };
        let mut exp = Pack::<1>::default();
        if LASTCR {
            exp.push1(b'\r');
        }
        ref_canon(&chunk[..end], LASTCR, &mut exp);
        let got = Pack::<1>::of12(&rd.replaced[..]);
        assert!(got.len == exp.len, "C14 reader fill: canonical length differs from reference");
        assert!(got.same(&exp), "C14 reader fill: canonical bytes differ from reference");
        core::mem::forget(rd);
        p += 1;
    }
}
vproof!(c14_reader_step_0, 7, { reader_step::<0, false>(); reader_step::<0, true>() });
vproof!(c14_reader_step_1, 7, { reader_step::<1, false>(); reader_step::<1, true>() });
vproof!(c14_reader_step_2, 10, { reader_step::<2, false>(); reader_step::<2, true>() });
vproof!(c14_reader_step_3, 28, { reader_step::<3, false>(); reader_step::<3, true>() });
vproof!(c14_reader_step_4_cr, 82, { reader_step::<4, true>() });
vproof!(c14_reader_step_4_nocr, 82, { reader_step::<4, false>() });
vproof!(c14_reader_fill_0, 7, { reader_fill::<0, 0, false>(); reader_fill::<0, 0, true>() });
vproof!(c14_reader_fill_2, 10, { reader_fill::<2, 2, false>(); reader_fill::<2, 2, true>() });
vproof!(c14_reader_fill_4_cr, 82, { reader_fill::<4, 4, true>() });
vproof!(c14_reader_fill_5_nocr, 82, { reader_fill::<5, 4, false>() });
