// C14 (b,c): in-memory normalisation and the streaming NormalizedReader (child module of
// normalize_lines.rs: `replace_newlines` and the reader's fields are private).
#![allow(unused, dead_code)]
use std::io::Read;

use super::*;
use crate::__verif_common::*;
use crate::line_writer::LineBreak;

fn ref_canon<const K: usize>(data: &[u8], mut prev_cr: bool, exp: &mut Pack<K>) {
    let mut i = 0;
    while i < data.len() {
        let c = data[i];
        if c == b'\n' && !prev_cr {
            exp.push1(b'\r');
        }
        exp.push1(c);
        prev_cr = c == b'\r';
        i += 1;
    }
}

/// replace_newlines(x, CRLF) == reference canonical form, for every byte string of length L
fn replace_case<const L: usize>() {
    let data: [u8; L] = kani::any();
    let out = replace_newlines(&data[..], b"\r\n");
    let mut exp = Pack::<1>::default();
    ref_canon(&data[..], false, &mut exp);
    let got = Pack::<1>::of12(&out);
    if L >= 2 {
        kani::cover!(data[0] == b'\r' && data[1] == b'\n', "CRLF kept");
    }
    if L >= 1 {
        kani::cover!(data[L - 1] == b'\n', "ends in LF");
    }
    assert!(got.len == exp.len, "C14 replace_newlines: canonical length differs from reference");
    assert!(got.same(&exp), "C14 replace_newlines: canonical bytes differ from reference");
    core::mem::forget(out);
}

macro_rules! rep {
    ($name:ident, $l:expr, $uw:expr) => {
        vproof!($name, $uw, { replace_case::<$l>() });
    };
}
rep!(c14_replace_0, 0, 3);
rep!(c14_replace_1, 1, 3);
rep!(c14_replace_2, 2, 4);
rep!(c14_replace_3, 3, 5);
rep!(c14_replace_4, 4, 6);
rep!(c14_replace_5, 5, 7);

/// NormalizedReader over a source of N bytes: filler 'a' except the bytes in the window
/// [W0, W0+WN) which are symbolic (placed around the 512-byte internal buffer edge).
/// Output must equal the reference canonical form: identity on the filler prefix, canon(tail).
fn reader_edge<const N: usize, const W0: usize, const WN: usize, const OUT: usize>() {
    let mut src = [b'a'; N];
    let win: [u8; WN] = kani::any();
    let mut i = 0;
    while i < WN {
        src[W0 + i] = win[i];
        i += 1;
    }
    let mut rd = NormalizedReader::new(&src[..], LineBreak::Crlf);
    let mut out = [0u8; OUT];
    let mut n = 0;
    let mut calls = 0;
    loop {
        let r = okf(rd.read(&mut out[n..]));
        match r {
            None => {
                assert!(false, "C14 reader: error on an in-memory source");
                return;
            }
            Some(0) => break,
            Some(k) => n += k,
        }
        calls += 1;
        assert!(calls <= N / 512 + 3, "C14 reader: too many reads");
    }
    // reference: prefix [0, W0) is filler -> unchanged; then canon(window) ; then filler
    let mut exp = Pack::<1>::default();
    ref_canon(&win[..], false, &mut exp);
    let tail = N - W0 - WN;
    kani::cover!(win[0] == b'\r' && WN > 1 && win[1] == b'\n', "CR LF straddling / at the window start");
    kani::cover!(win[WN - 1] == b'\n', "LF at the window end");
    assert!(n == W0 + exp.len + tail, "C14 reader: canonical length differs from reference");
    let got = Pack::<1>::of12(&out[W0..W0 + exp.len]);
    assert!(got.same(&exp), "C14 reader: canonical bytes of the edge window differ from reference");
    // filler before and after is unchanged
    assert!(W0 == 0 || (out[0] == b'a' && out[W0 - 1] == b'a'), "C14 reader: prefix changed");
    assert!(tail == 0 || out[n - 1] == b'a', "C14 reader: suffix changed");
    core::mem::forget(rd);
}

// window of 3 symbolic bytes at offsets 510..513 of a 514-byte source (edge of the first buffer)
vproof!(c14_reader_edge_514, 520, { reader_edge::<514, 510, 3, 540>() });
// source exactly one buffer long, window at its end
vproof!(c14_reader_edge_512, 520, { reader_edge::<512, 509, 3, 540>() });
// short source
vproof!(c14_reader_small_3, 5, { reader_edge::<3, 0, 3, 8>() });
vproof!(c14_reader_small_4, 6, { reader_edge::<4, 0, 4, 10>() });
// second buffer edge
vproof!(c14_reader_edge_1026, 520, { reader_edge::<1026, 1022, 3, 1060>() });
