// C14 (b,c): in-memory normalisation and the streaming NormalizedReader (child module of
// normalize_lines.rs: `replace_newlines` and the reader's fields are private).
#![allow(unused, dead_code)]
use std::io::Read;

use super::*;
use crate::__verif_common::*;
use crate::line_writer::LineBreak;

fn ref_canon<const K: usize>(data: &[u8], mut prev_cr: bool, exp: &mut Pack<K>) {
    let mut i = 0;
    while i < data.len() {
        let c = data[i];
        if c == b'\n' && !prev_cr {
            exp.push1(b'\r');
        }
        exp.push1(c);
        prev_cr = c == b'\r';
        i += 1;
    }
}

/// replace_newlines(x, CRLF) == reference canonical form, for every byte string of length L
fn replace_case<const L: usize>() {
    let data: [u8; L] = kani::any();
    let out = replace_newlines(&data[..], b"\r\n");
    let mut exp = Pack::<1>::default();
    ref_canon(&data[..], false, &mut exp);
    let got = Pack::<1>::of12(&out);
    if L >= 2 {
        kani::cover!(data[0] == b'\r' && data[1] == b'\n', "maybe: CRLF kept");
    }
    if L >= 1 {
        kani::cover!(data[L - 1] == b'\n', "maybe: ends in LF");
    }
    assert!(got.len == exp.len, "C14 replace_newlines: canonical length differs from reference");
    assert!(got.same(&exp), "C14 replace_newlines: canonical bytes differ from reference");
    core::mem::forget(out);
}

macro_rules! rep {
    ($name:ident, $l:expr, $uw:expr) => {
        vproof!($name, $uw, { replace_case::<$l>() });
    };
}
rep!(c14_replace_0, 0, 3);
rep!(c14_replace_1, 1, 3);
rep!(c14_replace_2, 2, 4);
rep!(c14_replace_3, 3, 5);
rep!(c14_replace_4, 4, 6);
rep!(c14_replace_5, 5, 7);

/// NormalizedReader over every source of N arbitrary bytes, in a build where the reader's internal buffer is
/// scaled from 512 to 4 octets (run.py substitution `BUF_SIZE = 1024` -> `8`; the buffer-edge logic is
/// written in terms of BUF_SIZE, so the CR|LF-across-the-edge and trailing-CR cases occur at offset 4
/// instead of 512).  Output must equal the byte-at-a-time reference.
fn reader_case<const N: usize, const OUT: usize>() {
    assert!(BUF_SIZE == 8, "scaled build expected");
    let src: [u8; N] = kani::any();
    let mut rd = NormalizedReader::new(&src[..], LineBreak::Crlf);
    let mut out = [0u8; OUT];
    let mut n = 0;
    let mut calls = 0;
    loop {
        match okf(rd.read(&mut out[n..])) {
            None => {
                assert!(false, "C14 reader: error on an in-memory source");
                return;
            }
            Some(0) => break,
            Some(k) => n += k,
        }
        calls += 1;
        assert!(calls <= N / 4 + 3, "C14/C09 reader: too many reads");
    }
    let mut exp = Pack::<1>::default();
    ref_canon(&src[..], false, &mut exp);
    if N >= 5 {
        kani::cover!(src[3] == b'\r' && src[4] == b'\n', "CR | LF straddling the internal buffer edge");
    }
    if N == 4 {
        kani::cover!(src[3] == b'\r', "source ends with CR exactly at the buffer edge");
    }
    assert!(n == exp.len, "C14 reader: canonical length differs from reference");
    let got = Pack::<1>::of12(&out[..n]);
    assert!(got.same(&exp), "C14 reader: canonical bytes differ from reference");
    core::mem::forget(rd);
}
vproof!(c14_reader_3, 8, { reader_case::<3, 8>() });
vproof!(c14_reader_4, 8, { reader_case::<4, 10>() });
vproof!(c14_reader_5, 8, { reader_case::<5, 12>() });
