// C08 / C05: the 16-bit checksum over unlocked secret key material (S2K usage 255 / legacy / unprotected v4):
// PlainSecretParams::try_from_reader on 32 arbitrary X25519 secret octets + 2 arbitrary checksum octets accepts
// iff the checksum is the sum of the octets mod 65536, and refuses trailing octets.  Real arithmetic, no stubs.
#![allow(unused, dead_code)]
use super::__verif_common::*;
use crate::crypto::public_key::PublicKeyAlgorithm;
use crate::types::{KeyVersion, PlainSecretParams, PublicParams, X25519PublicParams};

fn checksum_decision<const EXTRA: usize>() {
    let sec: [u8; 32] = kani::any();
    let ck: [u8; 2] = kani::any();
    let mut wire = [0u8; 35];
    let mut sum: u32 = 0;
    let mut i = 0;
    while i < 32 {
        wire[i] = sec[i];
        sum += sec[i] as u32;
        i += 1;
    }
    wire[32] = ck[0];
    wire[33] = ck[1];
    let pp = core::mem::ManuallyDrop::new(PublicParams::X25519(X25519PublicParams { key: x25519_dalek::PublicKey::from([9u8; 32]) }));
    let r = okf(PlainSecretParams::try_from_reader(&wire[..34 + EXTRA], KeyVersion::V4, PublicKeyAlgorithm::X25519, &pp));
    let good = ((sum >> 8) as u8 == ck[0]) && (sum as u8 == ck[1]);
    if EXTRA == 0 {
        kani::cover!(r.is_some(), "maybe: a correct checksum is accepted");
        assert!(r.is_some() == good, "C08: secret key material accepted/refused against: 2-octet checksum == sum of the octets mod 65536");
    } else {
        assert!(r.is_none(), "C08/C05: trailing octets after the checksum accepted");
    }
    if let Some(p) = r {
        core::mem::forget(p);
    }
}
vproof!(c08_checksum_decision, 36, { checksum_decision::<0>() });
vproof!(c08_checksum_trailing, 36, { checksum_decision::<1>() });
