// C14 (d): the literal-data checking readers (child module of packet/literal_data.rs; constructors private).
#![allow(unused, dead_code)]
use std::io::Read;

use super::*;
use crate::__verif_common::*;

/// source that hands out `a` then `b` then EOF
struct Two<'x> {
    a: &'x [u8],
    b: &'x [u8],
    call: usize,
}
impl io::Read for Two<'_> {
    fn read(&mut self, buf: &mut [u8]) -> io::Result<usize> {
        let s = if self.call == 0 {
            self.a
        } else if self.call == 1 {
            self.b
        } else {
            &[][..]
        };
        self.call += 1;
        let mut i = 0;
        while i < s.len() {
            buf[i] = s[i];
            i += 1;
        }
        Ok(s.len())
    }
}

fn bare_lf(d: &[u8], mut prev_cr: bool) -> bool {
    let mut bad = false;
    let mut i = 0;
    while i < d.len() {
        if d[i] == b'\n' && !prev_cr {
            bad = true;
        }
        prev_cr = d[i] == b'\r';
        i += 1;
    }
    bad
}

/// CrLfCheckReader accepts a chunk iff the reference sees no LF without a preceding CR (state carried
/// across chunks), and passes the data through unchanged.
fn crlf_case<const A: usize, const B: usize>() {
    let a: [u8; A] = kani::any();
    let b: [u8; B] = kani::any();
    let mut rd = CrLfCheckReader::new(Two { a: &a[..], b: &b[..], call: 0 });
    let mut buf = [0u8; 8];
    let r1 = okf(rd.read(&mut buf[..]));
    let bad1 = bare_lf(&a[..], false);
    if A > 0 && B > 0 {
        kani::cover!(a[A - 1] == b'\r' && b[0] == b'\n', "maybe: CR | LF across reads");
    }
    if A > 0 {
        assert!(r1.is_some() == !bad1, "C14 CrLfCheckReader: first chunk verdict differs from reference");
    }
    if let Some(n) = r1 {
        assert!(n == A, "C14 CrLfCheckReader: length changed");
        let mut i = 0;
        while i < A {
            assert!(buf[i] == a[i], "C14 CrLfCheckReader: data changed");
            i += 1;
        }
        if A > 0 && B > 0 {
            let r2 = okf(rd.read(&mut buf[..]));
            let bad2 = bare_lf(&b[..], a[A - 1] == b'\r');
            assert!(r2.is_some() == !bad2, "C14 CrLfCheckReader: second chunk verdict differs from reference");
        }
    }
    core::mem::forget(rd);
}

macro_rules! crlf {
    ($name:ident, $a:expr, $b:expr, $uw:expr) => {
        #[kani::proof]
        #[kani::unwind($uw)]
        fn $name() {
            crlf_case::<$a, $b>()
        }
    };
}
crlf!(c14_crlf_1_1, 1, 1, 4);
crlf!(c14_crlf_2_1, 2, 1, 5);
crlf!(c14_crlf_1_2, 1, 2, 5);
crlf!(c14_crlf_2_2, 2, 2, 5);
crlf!(c14_crlf_3_2, 3, 2, 6);
crlf!(c14_crlf_4_0, 4, 0, 7);

/// Utf8CheckReader: reading A then B then EOF succeeds on every call iff A++B is valid UTF-8.
fn utf8_case<const A: usize, const B: usize, const AB: usize>() {
    let a: [u8; A] = kani::any();
    let b: [u8; B] = kani::any();
    let mut all = [0u8; AB];
    let mut i = 0;
    while i < A {
        all[i] = a[i];
        i += 1;
    }
    let mut i = 0;
    while i < B {
        all[A + i] = b[i];
        i += 1;
    }
    let valid = core::str::from_utf8(&all[..]).is_ok();
    let mut rd = Utf8CheckReader::new(Two { a: &a[..], b: &b[..], call: 0 });
    let mut buf = [0u8; 8];
    let mut ok = true;
    let mut calls = 0;
    while ok && calls < 3 {
        match okf(rd.read(&mut buf[..])) {
            None => ok = false,
            Some(0) => break,
            Some(_) => {}
        }
        calls += 1;
    }
    kani::cover!(valid && a[A - 1] >= 0xC0, "multi-byte sequence split across reads");
    kani::cover!(!valid);
    assert!(ok == valid, "C14/C01 Utf8CheckReader: accepts iff the whole stream is valid UTF-8");
    core::mem::forget(rd);
}
#[kani::proof]
#[kani::unwind(8)]
fn c14_utf8_1_1() {
    utf8_case::<1, 1, 2>()
}
#[kani::proof]
#[kani::unwind(8)]
fn c14_utf8_2_1() {
    utf8_case::<2, 1, 3>()
}
#[kani::proof]
#[kani::unwind(8)]
fn c14_utf8_1_2() {
    utf8_case::<1, 2, 3>()
}
#[kani::proof]
#[kani::unwind(8)]
fn c14_utf8_2_2() {
    utf8_case::<2, 2, 4>()
}
#[kani::proof]
#[kani::unwind(8)]
fn c14_utf8_1_3() {
    utf8_case::<1, 3, 4>()
}
#[kani::proof]
#[kani::unwind(8)]
fn c14_utf8_3_1() {
    utf8_case::<3, 1, 4>()
}

/// LiteralData::from_str canonicalises with the same function: for every ASCII text of L bytes the stored
/// data equals the byte-at-a-time reference (Timestamp::now is stubbed)
pub fn stub_now() -> crate::types::Timestamp {
    crate::types::Timestamp::from_secs(0)
}
fn from_str_case<const L: usize>() {
    let raw: [u8; L] = kani::any();
    let mut i = 0;
    while i < L {
        kani::assume(raw[i] < 0x80);
        i += 1;
    }
    let text = match core::str::from_utf8(&raw[..]) {
        Ok(t) => t,
        Err(_) => return,
    };
    match okf(LiteralData::from_str(Bytes::new(), text)) {
        None => assert!(false, "C14: LiteralData::from_str failed"),
        Some(ld) => {
            let mut exp = Pack::<1>::default();
            let mut prev_cr = false;
            let mut j = 0;
            while j < L {
                if raw[j] == b'\n' && !prev_cr {
                    exp.push1(b'\r');
                }
                exp.push1(raw[j]);
                prev_cr = raw[j] == b'\r';
                j += 1;
            }
            let got = Pack::<1>::of12(ld.data());
            kani::cover!(L >= 3 && raw[0] == b'\r' && raw[1] == b'\n' && raw[2] == b'\n', "CRLF then bare LF");
            assert!(got.same(&exp), "C14: LiteralData::from_str does not store the canonical text");
            core::mem::forget(ld);
        }
    }
}
#[kani::proof]
#[kani::unwind(8)]
#[kani::stub(std::fmt::format, crate::__verif_common::stub_format)]
#[kani::stub(snafu::backtrace_collection_enabled, crate::__verif_common::stub_bt)]
#[kani::stub(crate::types::Timestamp::now, stub_now)]
fn c14_literal_from_str_3() {
    from_str_case::<3>()
}
#[kani::proof]
#[kani::unwind(9)]
#[kani::stub(std::fmt::format, crate::__verif_common::stub_format)]
#[kani::stub(snafu::backtrace_collection_enabled, crate::__verif_common::stub_bt)]
#[kani::stub(crate::types::Timestamp::now, stub_now)]
fn c14_literal_from_str_4() {
    from_str_case::<4>()
}
