// C03/C04/C05: the SEIPD header ("altered chunk-size/cipher/AEAD/salt header fields"): Config::try_from_reader on
// version + 3 arbitrary parameter octets + 32 arbitrary salt octets accepts exactly chunk-size octets 0..=16 and
// keeps every octet as presented (a header the parser normalised would decrypt although it was altered).
#![allow(unused, dead_code)]
use super::__verif_common::*;
use crate::packet::SymEncryptedProtectedDataConfig as Config;
use crate::ser::Serialize;

fn cfg_v2_octets() {
    let p: [u8; 3] = kani::any();
    let salt0: u8 = kani::any();
    let salt31: u8 = kani::any();
    let mut wire = [0x11u8; 36];
    wire[0] = 2;
    wire[1] = p[0];
    wire[2] = p[1];
    wire[3] = p[2];
    wire[4] = salt0;
    wire[35] = salt31;
    let r = okf(Config::try_from_reader(&wire[..]));
    kani::cover!(r.is_some(), "a legal header parses");
    match r {
        None => assert!(p[2] > 16, "C05: SEIPDv2 header with a legal chunk-size octet refused"),
        Some(cfg) => {
            assert!(p[2] <= 16, "C03/C04: SEIPDv2 chunk-size octet above 16 accepted");
            assert!(cfg.write_len() == 36, "C05: SEIPDv2 header write_len");
            let mut w = FixW::<40>::new();
            assert!(is_okf(cfg.to_writer(&mut w)));
            assert!(w.len == 36, "C05: SEIPDv2 header length written");
            assert!(w.buf[0] == 2 && w.buf[1] == p[0] && w.buf[2] == p[1] && w.buf[3] == p[2] && w.buf[4] == salt0 && w.buf[35] == salt31,
                    "C03/C05: SEIPDv2 header octets not preserved by parse + serialise (an altered header field would be normalised away)");
            core::mem::forget(cfg);
        }
    }
}
vproof!(c03_seipd_config_octets, 40, { cfg_v2_octets() });

/// any other version octet: v1 has no parameters, everything else is refused
vproof!(c03_seipd_config_version, 6, {
    let v: u8 = kani::any();
    kani::assume(v != 2);
    let wire = [v, 7, 3, 0];
    let ok = is_okf(Config::try_from_reader(&wire[..]));
    assert!(ok == (v == 1), "C03/C15: unknown SEIPD version accepted or version 1 refused");
});
