// Shared models for all harness modules (compiled only under cfg(kani), inside a scratch copy of the
// crate).  Nothing here models rPGP itself: these are ideal primitives, sinks and sources.
#![allow(unused, dead_code, unsafe_code, static_mut_refs, clippy::all)]
use std::io::{self, BufRead, Read, Write};

use digest::DynDigest;

// ---------------------------------------------------------------------------------------------
// stubs for formatting / backtraces (error *messages* are outside every claim)
pub fn stub_format(_args: core::fmt::Arguments<'_>) -> String {
    String::new()
}
pub fn stub_bt() -> bool {
    false
}
/// `format!` is MIR-inlined into its callers, so stubbing std::fmt::format alone leaves
/// format_inner -> core::fmt::write reachable (Debug of keys, hex encoding, ... for error messages).
/// Harnesses whose code under test does not produce *output* through fmt stub the engine itself.
pub fn stub_fmt_write(_out: &mut dyn core::fmt::Write, _args: core::fmt::Arguments<'_>) -> core::fmt::Result {
    Ok(())
}

/// Model of `memchr::memchr_iter` (the crate's single call site, in normalize_lines::replace_newlines, is
/// redirected here in the scratch copy): offsets of `needle` in `hay`, in order.  memchr's x86_64 build
/// goes through CPUID + SSE2/AVX2 and could not be decided by CBMC even on 2-byte inputs.
pub struct MemchrModel<'h> {
    needle: u8,
    hay: &'h [u8],
    pos: usize,
}
pub fn memchr_iter_model(needle: u8, hay: &[u8]) -> MemchrModel<'_> {
    MemchrModel { needle, hay, pos: 0 }
}
impl Iterator for MemchrModel<'_> {
    type Item = usize;
    fn next(&mut self) -> Option<usize> {
        while self.pos < self.hay.len() {
            let i = self.pos;
            self.pos += 1;
            if self.hay[i] == self.needle {
                return Some(i);
            }
        }
        None
    }
}

/// CPUID is inline asm; report "no optional CPU features" (every dispatcher then takes its baseline path)
pub fn stub_cpuid(_leaf: u32, _sub: u32) -> core::arch::x86_64::CpuidResult {
    core::arch::x86_64::CpuidResult { eax: 0, ebx: 0, ecx: 0, edx: 0 }
}

/// Logging and error-message formatting get empty bodies (scratch-copy substitutions in run.py redirect
/// `log::{debug,info,warn,...}!` and the `format!` inside the crate's error macros here): `format!` is
/// MIR-inlined, so a kani::stub of std::fmt::format does not remove the Debug/hex formatting of keys
/// and signatures that error paths perform, and that formatting dominated symbolic execution.
macro_rules! vnolog {
    ($($t:tt)*) => {{}};
}
pub(crate) use vnolog as debug;
pub(crate) use vnolog as error;
pub(crate) use vnolog as info;
pub(crate) use vnolog as trace;
pub(crate) use vnolog as warn;
macro_rules! nofmt {
    ($($t:tt)*) => {
        String::new()
    };
}
pub(crate) use nofmt;

/// Recursion bound for embedded signatures.  SubpacketData::{to_writer,write_len} and the subpacket
/// parser reach Signature::{to_writer,write_len,try_from_reader} through the EmbeddedSignature variant.
/// CBMC does not constant-fold the (niche-encoded) discriminant of SubpacketData, so every serialisation
/// of *any* subpacket explores that variant and recurses up to the unwind bound (measured: serialising a
/// single creation-time subpacket did not finish in 150 s).  The three call sites are wrapped (scratch-copy
/// substitution in run.py) in emb_enter()/emb_leave(): nesting deeper than EMB_LIMIT is assumed away, i.e.
/// the claim is bounded to signatures whose embedded-signature nesting depth is <= EMB_LIMIT (default 0).
pub static mut EMB_DEPTH: u32 = 0;
pub static mut EMB_LIMIT: u32 = 0;
pub fn emb_enter() {
    unsafe {
        kani::assume(EMB_DEPTH < EMB_LIMIT);
        EMB_DEPTH += 1;
    }
}
pub fn emb_leave() {
    unsafe {
        EMB_DEPTH -= 1;
    }
}
pub fn set_emb_limit(n: u32) {
    unsafe {
        EMB_LIMIT = n;
    }
}

/// A Vec whose backing store is a typed stack array.  CBMC keeps struct/enum typing for stack objects but
/// models heap allocations as untyped byte arrays: an enum stored in a heap Vec loses its constant
/// discriminant and every later `match` on it explores all arms with garbage payloads (measured: one
/// concrete Subpacket in a `vec![..]` + a trivial match: > 100 s; stack-backed: 1 s).  The Vec must not be
/// dropped or grown: harnesses mem::forget its owner.
macro_rules! stack_vec {
    ($arr:ident, $n:expr) => {{
        #[allow(unsafe_code)]
        let v = unsafe { Vec::from_raw_parts($arr.as_mut_ptr(), $n, $n) };
        v
    }};
}
pub(crate) use stack_vec;
/// empty Vec<T> whose (unused) backing store is a real stack object: `Vec::new()` uses a dangling
/// integer-derived pointer, and CBMC does not fold `ptr == end` on those, so loops over the empty Vec are
/// unrolled to the unwind bound over garbage elements
macro_rules! stack_vec_empty {
    ($store:ident, $t:ty) => {{
        #[allow(unsafe_code)]
        let v: Vec<$t> = unsafe { Vec::from_raw_parts($store.as_mut_ptr() as *mut $t, 0, 0) }; // cap 0: dropping it deallocates nothing
        v
    }};
}
pub(crate) use stack_vec_empty;

/// proof harness with the standard stub set
macro_rules! vproof {
    ($name:ident, $uw:expr, $body:block) => {
        #[kani::proof]
        #[kani::unwind($uw)]
        #[kani::stub(std::fmt::format, crate::__verif_common::stub_format)]
        #[kani::stub(snafu::backtrace_collection_enabled, crate::__verif_common::stub_bt)]
        #[kani::stub(std::arch::x86_64::__cpuid_count, crate::__verif_common::stub_cpuid)]
        fn $name() $body
    };
}
pub(crate) use vproof;

// ---------------------------------------------------------------------------------------------
// Transcript digest: "digest equality <=> input equality" (ideal, collision-free hash).
// The transcript is packed big-endian into K 128-bit words (16 bytes each) plus a length, so that
// no array is indexed with a symbolic offset and no memcpy of symbolic size is needed (both are
// what made a byte-array recorder cost millions of SAT variables).  Exact (injective) for
// transcripts of at most 16*K bytes; `over` is set if more is fed and every harness asserts !over.
#[derive(Clone, Copy, PartialEq, Eq)]
pub struct Pack<const K: usize> {
    pub w: [u128; K],
    pub len: usize,
    pub over: bool,
}
impl<const K: usize> Default for Pack<K> {
    fn default() -> Self {
        Pack { w: [0; K], len: 0, over: false }
    }
}
impl<const K: usize> Pack<K> {
    #[inline(never)]
    pub fn push1(&mut self, b: u8) {
        let mut k = 0;
        let mut done = false;
        while k < K {
            if !done && self.len < 16 * (k + 1) {
                self.w[k] = (self.w[k] << 8) | b as u128;
                done = true;
            }
            k += 1;
        }
        if !done {
            self.over = true;
        }
        self.len += 1;
    }
    /// loop-free for up to 56 bytes per call (longer updates set `over`): a per-byte loop here would
    /// force a global unwind bound of 20+ on every other loop of the harness
    pub fn push(&mut self, data: &[u8]) {
        let n = data.len();
        macro_rules! at {
            ($i:expr) => {
                if $i < n {
                    self.push1(data[$i]);
                }
            };
        }
        at!(0);
        at!(1);
        at!(2);
        at!(3);
        at!(4);
        at!(5);
        at!(6);
        at!(7);
        at!(8);
        at!(9);
        at!(10);
        at!(11);
        at!(12);
        at!(13);
        at!(14);
        at!(15);
        at!(16);
        at!(17);
        at!(18);
        at!(19);
        at!(20);
        at!(21);
        at!(22);
        at!(23);
        at!(24);
        at!(25);
        at!(26);
        at!(27);
        at!(28);
        at!(29);
        at!(30);
        at!(31);
        at!(32);
        at!(33);
        at!(34);
        at!(35);
        at!(36);
        at!(37);
        at!(38);
        at!(39);
        at!(40);
        at!(41);
        at!(42);
        at!(43);
        at!(44);
        at!(45);
        at!(46);
        at!(47);
        at!(48);
        at!(49);
        at!(50);
        at!(51);
        at!(52);
        at!(53);
        at!(54);
        at!(55);
        if n > 56 {
            self.over = true;
        }
    }
    /// straight-line (loop-free) packing of a slice of at most 12 bytes: harness-side loops would
    /// otherwise force a larger global unwind bound than the code under test needs
    pub fn of12(d: &[u8]) -> Self {
        let mut p = Self::default();
        macro_rules! at {
            ($i:expr) => {
                if $i < d.len() {
                    p.push1(d[$i]);
                }
            };
        }
        at!(0);
        at!(1);
        at!(2);
        at!(3);
        at!(4);
        at!(5);
        at!(6);
        at!(7);
        at!(8);
        at!(9);
        at!(10);
        at!(11);
        if d.len() > 12 {
            p.over = true;
        }
        p
    }
    pub fn same(&self, o: &Self) -> bool {
        let mut ok = self.len == o.len && !self.over && !o.over;
        let mut k = 0;
        while k < K {
            if self.w[k] != o.w[k] {
                ok = false;
            }
            k += 1;
        }
        ok
    }
    /// serialised form used as the "digest value": len || over || words (fixed size 2 + 16*K, no loops, no Vec growth)
    pub fn to_bytes(&self) -> Box<[u8]> {
        let mut out = vec![0u8; 2 + 16 * K].into_boxed_slice();
        out[0] = self.len as u8;
        out[1] = self.over as u8;
        macro_rules! word {
            ($k:expr) => {
                if $k < K {
                    let b = self.w[$k].to_be_bytes();
                    out[2 + 16 * $k..2 + 16 * $k + 16].copy_from_slice(&b);
                }
            };
        }
        word!(0);
        word!(1);
        word!(2);
        word!(3);
        word!(4);
        word!(5);
        out
    }
    pub fn from_bytes(b: &[u8]) -> Self {
        let mut p = Pack::<K>::default();
        p.len = b[0] as usize;
        p.over = b[1] != 0;
        let mut k = 0;
        while k < K {
            let mut a = [0u8; 16];
            a.copy_from_slice(&b[2 + 16 * k..2 + 16 * k + 16]);
            p.w[k] = u128::from_be_bytes(a);
            k += 1;
        }
        p
    }
}

#[derive(Clone, Default)]
pub struct Rec<const K: usize> {
    pub p: Pack<K>,
}
impl<const K: usize> DynDigest for Rec<K> {
    fn update(&mut self, data: &[u8]) {
        self.p.push(data)
    }
    fn finalize_into(self, _buf: &mut [u8]) -> Result<(), digest::InvalidBufferSize> {
        Err(digest::InvalidBufferSize)
    }
    fn finalize_into_reset(&mut self, _out: &mut [u8]) -> Result<(), digest::InvalidBufferSize> {
        Err(digest::InvalidBufferSize)
    }
    fn reset(&mut self) {
        self.p = Pack::default()
    }
    fn output_size(&self) -> usize {
        2 + 16 * K
    }
    fn box_clone(&self) -> Box<dyn DynDigest> {
        Box::new(self.clone())
    }
    fn finalize(self: Box<Self>) -> Box<[u8]> {
        self.p.to_bytes()
    }
    fn finalize_reset(&mut self) -> Box<[u8]> {
        let b = self.p.to_bytes();
        self.p = Pack::default();
        b
    }
}

// ---------------------------------------------------------------------------------------------
// Fixed-capacity sink.
pub struct FixW<const N: usize> {
    pub buf: [u8; N],
    pub len: usize,
}
impl<const N: usize> FixW<N> {
    pub fn new() -> Self {
        FixW { buf: [0; N], len: 0 }
    }
    pub fn bytes(&self) -> &[u8] {
        &self.buf[..self.len]
    }
}
impl<const N: usize> Write for FixW<N> {
    fn write(&mut self, data: &[u8]) -> io::Result<usize> {
        let n = data.len();
        assert!(self.len + n <= N, "sink model capacity");
        self.buf[self.len..self.len + n].copy_from_slice(data);
        self.len += n;
        Ok(n)
    }
    fn flush(&mut self) -> io::Result<()> {
        Ok(())
    }
}

// Sink that only counts.
pub struct CountW {
    pub len: usize,
}
impl Write for CountW {
    fn write(&mut self, data: &[u8]) -> io::Result<usize> {
        self.len += data.len();
        Ok(data.len())
    }
    fn flush(&mut self) -> io::Result<()> {
        Ok(())
    }
}

// ---------------------------------------------------------------------------------------------
// Short-read source: k-th call returns at most cuts[k] bytes (>=1), afterwards everything.
pub struct ShortRead<'a, const K: usize> {
    pub data: &'a [u8],
    pub pos: usize,
    pub cuts: [usize; K],
    pub call: usize,
    /// call index at which an error is returned (usize::MAX = never)
    pub fail_at: usize,
}
impl<'a, const K: usize> ShortRead<'a, K> {
    pub fn new(data: &'a [u8], cuts: [usize; K]) -> Self {
        ShortRead { data, pos: 0, cuts, call: 0, fail_at: usize::MAX }
    }
}
impl<const K: usize> Read for ShortRead<'_, K> {
    fn read(&mut self, buf: &mut [u8]) -> io::Result<usize> {
        if self.call == self.fail_at {
            self.call += 1;
            return Err(io::Error::from(io::ErrorKind::Other));
        }
        let rem = self.data.len() - self.pos;
        let mut n = rem.min(buf.len());
        if self.call < K {
            n = n.min(self.cuts[self.call]);
        }
        self.call += 1;
        buf[..n].copy_from_slice(&self.data[self.pos..self.pos + n]);
        self.pos += n;
        Ok(n)
    }
}

/// Result -> Option without running the error's drop glue (dropping an io::Error / crate Error makes
/// CBMC explore the drop of every `dyn Error` implementor; measured: out of memory on a 5-line codec).
pub fn okf<T, E>(r: Result<T, E>) -> Option<T> {
    match r {
        Ok(v) => Some(v),
        Err(e) => {
            core::mem::forget(e);
            None
        }
    }
}
pub fn is_okf<T, E>(r: Result<T, E>) -> bool {
    match r {
        Ok(v) => {
            core::mem::forget(v);
            true
        }
        Err(e) => {
            core::mem::forget(e);
            false
        }
    }
}

// compare two slices without a memcmp intrinsic (bounded by N)
pub fn same<const N: usize>(a: &[u8], b: &[u8]) -> bool {
    if a.len() != b.len() {
        return false;
    }
    let mut i = 0;
    let mut ok = true;
    while i < N {
        if i < a.len() && a[i] != b[i] {
            ok = false;
        }
        i += 1;
    }
    ok
}
