// UNREGISTERED PROBES: the v4 instance runs out of 16 GB in the solver (BufRead::rest() into BytesMut); not registered.
// C05: v4 / v6 SKESK packets: parse then serialise is the identity on canonical wire octets and write_len is
// truthful.  Algorithm octets concrete per instance, S2K = simple/SHA-256, key and IV octets symbolic.
#![allow(unused, dead_code)]
use super::__verif_common::*;
use crate::packet::{PacketHeader, SymKeyEncryptedSessionKey};
use crate::ser::Serialize;
use crate::types::Tag;

fn roundtrip<const N: usize>(wire: &[u8; N]) {
    let hdr = PacketHeader::new_fixed(Tag::SymKeyEncryptedSessionKey, N as u32);
    match okf(SymKeyEncryptedSessionKey::try_from_reader(hdr, &wire[..])) {
        None => assert!(false, "C05: well-formed SKESK refused"),
        Some(p) => {
            let p = core::mem::ManuallyDrop::new(p);
            assert!(p.write_len() == N, "C05: SKESK write_len != body length");
            let mut w = FixW::<48>::new();
            assert!(is_okf(p.to_writer(&mut w)));
            assert!(w.len == N, "C05: SKESK octets written != write_len");
            let mut i = 0;
            let mut same = true;
            while i < 48 {
                if i < N {
                    same = same && w.buf[i] == wire[i];
                }
                i += 1;
            }
            assert!(same, "C05: SKESK does not re-serialise to the octets it was parsed from");
        }
    }
}
vproof!(c05_skesk_v4_roundtrip, 50, {
    let k: [u8; 3] = kani::any();
    roundtrip::<7>(&[4, 7, 0, 8, k[0], k[1], k[2]]);
});
vproof!(c05_skesk_v4_no_key_roundtrip, 50, {
    roundtrip::<4>(&[4, 7, 0, 8]);
});
// v6, AES128, GCM: count = 1+1+1+2+12 = 17; s2k len 2; iv 12 octets; 16-octet tag only (empty session key is
// not realistic but legal for the codec) + 1 key octet
vproof!(c05_skesk_v6_gcm_roundtrip, 50, {
    let iv: [u8; 2] = kani::any();
    let e: [u8; 3] = kani::any();
    let mut w = [0x33u8; 36];
    w[0] = 6;
    w[1] = 17;
    w[2] = 7;
    w[3] = 3;
    w[4] = 2;
    w[5] = 0;
    w[6] = 8;
    w[7] = iv[0];
    w[18] = iv[1];
    w[19] = e[0];
    w[34] = e[1];
    w[35] = e[2];
    roundtrip::<36>(&w);
});
