// C14 (a'): the carried state of NormalizingHasher after one step.  The one-step transcript harnesses
// (c14_hasher_step_*) are an inductive argument over all chunkings only if the state left behind is the
// abstraction they start from: `last_was_cr` must be exactly "the last octet hashed so far was CR".
// Child module of src/util.rs (the flag is private).
#![allow(unused, dead_code)]
use super::*;
use crate::__verif_common::*;

fn carried_state<const L: usize>() {
    let data: [u8; L] = kani::any();
    let pre: bool = kani::any();
    let mut h = core::mem::ManuallyDrop::new(NormalizingHasher::new(Box::new(Rec::<1>::default()), true));
    if pre {
        h.hash_buf(b"\r");
        assert!(h.last_was_cr, "C14 hasher: carry flag not set after a chunk ending in CR");
    }
    h.hash_buf(&data[..]);
    let want = if L == 0 { pre } else { data[L - 1] == b'\r' };
    kani::cover!(pre && L > 0 && data[0] == b'\n', "maybe: CR | LF split across chunks");
    assert!(h.last_was_cr == want, "C14 hasher: carried state after a chunk is not 'the last octet was CR'");
}
vproof!(c14_hasher_carry_0, 4, { carried_state::<0>() });
vproof!(c14_hasher_carry_1, 4, { carried_state::<1>() });
vproof!(c14_hasher_carry_2, 5, { carried_state::<2>() });
vproof!(c14_hasher_carry_3, 6, { carried_state::<3>() });
