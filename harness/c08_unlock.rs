// C08 / C04: the integrity decision of EncryptedSecretParams::unlock for S2K usage 254 (SHA-1 over the key
// material) and 255 (16-bit sum).  KDF, CFB and SHA-1 compression are models (derive_key = constant key, CFB =
// identity, digest = SHA-1 initial state), so the "protected bytes" are the octets the checks see; the packet is
// built directly.  unlock must accept exactly the octet strings whose check value matches - usage 254 must not be
// satisfied by a 16-bit sum (and vice versa) - and hand back the key material unchanged.
#![allow(unused, dead_code)]
use bytes::Bytes;

use super::__verif_common::*;
use crate::crypto::hash::HashAlgorithm;
use crate::crypto::public_key::PublicKeyAlgorithm;
use crate::crypto::sym::SymmetricKeyAlgorithm;
use crate::ser::Serialize;
use crate::types::{
    EncryptedSecretParams, Fingerprint, KeyDetails, KeyId, KeyVersion, Password, PlainSecretParams, PublicParams, S2kParams, StringToKey, Timestamp,
    X25519PublicParams,
};

pub fn stub_sha1_compress(_state: &mut [u32; 5], _blocks: &[generic_array::GenericArray<u8, generic_array::typenum::U64>]) {}
pub fn stub_cfb(_alg: SymmetricKeyAlgorithm, _key: &[u8], _iv: &[u8], _ciphertext: &mut [u8]) -> crate::errors::Result<()> {
    Ok(())
}
pub fn stub_derive(_s: &StringToKey, _pw: &[u8], key_size: usize) -> crate::errors::Result<crate::composed::RawSessionKey> {
    static K: [u8; 32] = [7u8; 32];
    Ok(crate::composed::RawSessionKey::from(&K[..key_size]))
}
const H0: [u8; 20] = [0x67, 0x45, 0x23, 0x01, 0xEF, 0xCD, 0xAB, 0x89, 0x98, 0xBA, 0xDC, 0xFE, 0x10, 0x32, 0x54, 0x76, 0xC3, 0xD2, 0xE1, 0xF0];

#[derive(Debug)]
struct PubK {
    pp: PublicParams,
}
impl KeyDetails for PubK {
    fn version(&self) -> KeyVersion {
        KeyVersion::V4
    }
    fn legacy_key_id(&self) -> KeyId {
        KeyId::new([1; 8])
    }
    fn fingerprint(&self) -> Fingerprint {
        Fingerprint::V4([3; 20])
    }
    fn algorithm(&self) -> PublicKeyAlgorithm {
        PublicKeyAlgorithm::X25519
    }
    fn created_at(&self) -> Timestamp {
        Timestamp::from_secs(0)
    }
    fn legacy_v3_expiration_days(&self) -> Option<u16> {
        None
    }
    fn public_params(&self) -> &PublicParams {
        &self.pp
    }
}
impl Serialize for PubK {
    fn to_writer<W: std::io::Write>(&self, _w: &mut W) -> crate::errors::Result<()> {
        Ok(())
    }
    fn write_len(&self) -> usize {
        0
    }
}

fn unlock_decision<const SHA1: bool, const N: usize>() {
    let sec: [u8; 32] = kani::any();
    let chk: [u8; 20] = kani::any();
    let mut all = [0u8; 52];
    let mut sum: u32 = 0;
    let mut i = 0;
    while i < 52 {
        if i < 32 {
            all[i] = sec[i];
            sum += sec[i] as u32;
        } else {
            all[i] = chk[i - 32];
        }
        i += 1;
    }
    let stat: &'static [u8; 52] = Box::leak(Box::new(all));
    static IV: [u8; 16] = [0u8; 16];
    let s2k = StringToKey::Simple { hash_alg: HashAlgorithm::Sha256 };
    let params = if SHA1 {
        S2kParams::Cfb { sym_alg: SymmetricKeyAlgorithm::AES128, s2k, iv: Bytes::from_static(&IV) }
    } else {
        S2kParams::MalleableCfb { sym_alg: SymmetricKeyAlgorithm::AES128, s2k, iv: Bytes::from_static(&IV) }
    };
    let locked = core::mem::ManuallyDrop::new(EncryptedSecretParams::new(Bytes::from_static(&stat[..N]), params));
    let pk = core::mem::ManuallyDrop::new(PubK { pp: PublicParams::X25519(X25519PublicParams { key: x25519_dalek::PublicKey::from([9u8; 32]) }) });
    let r = okf(locked.unlock(&Password::empty(), &*pk, None));
    let mut sha_ok = true;
    let mut k = 0;
    while k < 20 {
        sha_ok = sha_ok && chk[k] == H0[k];
        k += 1;
    }
    let sum_ok = (sum >> 8) as u8 == chk[0] && sum as u8 == chk[1];
    let good = if SHA1 { sha_ok } else { sum_ok };
    kani::cover!(r.is_some(), "a correct check value unlocks");
    assert!(r.is_some() == good, "C08: unlock accepted/refused against the integrity check its S2K usage octet selects (254: all 20 SHA-1 octets, 255: 16-bit sum)");
    if let Some(p) = r {
        match &p {
            PlainSecretParams::X25519(k) => {
                let b = k.as_bytes();
                assert!(b[0] == sec[0] && b[31] == sec[31], "C08: unlocked key material differs from the protected octets");
            }
            _ => assert!(false, "C08: unlock returned key material of another algorithm"),
        }
        core::mem::forget(p);
    }
}

macro_rules! uproof {
    ($name:ident, $sha:expr, $n:expr) => {
        #[kani::proof]
        #[kani::unwind(66)]
        #[kani::stub(std::fmt::format, crate::__verif_common::stub_format)]
        #[kani::stub(snafu::backtrace_collection_enabled, crate::__verif_common::stub_bt)]
        #[kani::stub(std::arch::x86_64::__cpuid_count, crate::__verif_common::stub_cpuid)]
        #[kani::stub(sha1::compress::compress, stub_sha1_compress)]
        #[kani::stub(crate::crypto::sym::SymmetricKeyAlgorithm::decrypt_with_iv_regular, stub_cfb)]
        #[kani::stub(crate::types::StringToKey::derive_key, stub_derive)]
        fn $name() {
            unlock_decision::<$sha, $n>()
        }
    };
}
// UNREGISTERED PROBE: the usage-254 instance (20-octet slice compare after split_at + calculate_sha1) exhausts 45 GB
uproof!(c08_unlock_usage_254, true, 52);
uproof!(c08_unlock_usage_255, false, 34);
