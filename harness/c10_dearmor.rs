// C10 (reader side, checksum decision): after the real Dearmor::read_body has consumed one base64 quantum,
// crc24_status() with CRC checking enabled says CheckedOk for exactly the footer value that is the RFC CRC-24
// of the decoded data - for EVERY 24-bit footer value.  Child module of src/armor/reader.rs (private fields).
// On the unchanged tree this fails with known finding F5 (assertions marked C10-KF5); any other deviation is
// reported through the unmarked assertion.
#![allow(unused, dead_code)]
use super::*;
use crate::__verif_common::*;

fn ref_crc24(data: &[u8]) -> u32 {
    let mut crc: u32 = 0xB704CE;
    let mut i = 0;
    while i < data.len() {
        crc ^= (data[i] as u32) << 16;
        let mut k = 0;
        while k < 8 {
            crc <<= 1;
            if crc & 0x1000000 != 0 {
                crc ^= 0x1864CFB;
            }
            k += 1;
        }
        i += 1;
    }
    crc & 0xFFFFFF
}

fn crc_decision(body: &'static [u8], plain: &[u8]) {
    let footer: u32 = kani::any();
    kani::assume(footer <= 0xFF_FFFF);
    let mut dec = core::mem::ManuallyDrop::new(Base64Decoder::new(Base64Reader::new(body)));
    let mut d = core::mem::ManuallyDrop::new(Dearmor::<&[u8]> {
        typ: None,
        headers: Default::default(),
        checksum: None,
        current_part: Part::Temp,
        crc: Some(crc24::Crc24Hasher::new()),
        max_buffer_limit: 1024,
    });
    let mut into = [0u8; 8];
    let n = okf(d.read_body(&mut into[..], &mut dec));
    assert!(n == Some(plain.len()), "C10: base64 body quantum not decoded");
    d.checksum = Some(footer as u64);
    let want = ref_crc24(plain);
    let ok = matches!(d.crc24_status(), ArmorCrc24Status::CheckedOk { .. });
    let invalid = matches!(d.crc24_status(), ArmorCrc24Status::CheckedInvalid { .. });
    assert!(ok || invalid, "C10: CRC checking enabled and footer present, but the status is neither CheckedOk nor CheckedInvalid");
    const INIT: u32 = 0xB704CE;
    assert!(!(footer == want) || ok, "C10-KF5: dearmor with CRC checking rejects the correct checksum");
    assert!(!(ok && footer != want && footer == INIT), "C10-KF5: dearmor with CRC checking accepts a footer equal to the CRC initial value");
    assert!(!(ok && footer != want && footer != INIT), "C10: dearmor with CRC checking accepts a wrong checksum");
}
/// model of base64::decoder::try_decode_engine_slice for unpadded input (the `base64` crate's table-driven
/// engine costs > 20 GB even on 4 concrete characters): whole quanta decoded by the RFC 4648 alphabet
fn inv(c: u8) -> u8 {
    match c {
        b'A'..=b'Z' => c - b'A',
        b'a'..=b'z' => c - b'a' + 26,
        b'0'..=b'9' => c - b'0' + 52,
        b'+' => 62,
        _ => 63,
    }
}
pub fn stub_decode<T: ?Sized + AsRef<[u8]>>(input: &T, output: &mut [u8]) -> (usize, usize) {
    let inp = input.as_ref();
    let q = inp.len() / 4;
    let mut k = 0;
    while k < q {
        let v = ((inv(inp[4 * k]) as u32) << 18) | ((inv(inp[4 * k + 1]) as u32) << 12) | ((inv(inp[4 * k + 2]) as u32) << 6) | inv(inp[4 * k + 3]) as u32;
        output[3 * k] = (v >> 16) as u8;
        output[3 * k + 1] = (v >> 8) as u8;
        output[3 * k + 2] = v as u8;
        k += 1;
    }
    (4 * q, 3 * q)
}

#[kani::proof]
#[kani::unwind(20)]
#[kani::stub(std::fmt::format, crate::__verif_common::stub_format)]
#[kani::stub(snafu::backtrace_collection_enabled, crate::__verif_common::stub_bt)]
#[kani::stub(crate::base64::decoder::try_decode_engine_slice, stub_decode)]
fn c10_dearmor_crc_decision() {
    crc_decision(b"AAAA", &[0, 0, 0])
}
#[kani::proof]
#[kani::unwind(20)]
#[kani::stub(std::fmt::format, crate::__verif_common::stub_format)]
#[kani::stub(snafu::backtrace_collection_enabled, crate::__verif_common::stub_bt)]
#[kani::stub(crate::base64::decoder::try_decode_engine_slice, stub_decode)]
fn c10_dearmor_crc_decision_b() {
    crc_decision(b"SGVsbG8h", b"Hello!")
}

/// the options builder: every combination and order of enable_crc24_check / set_limit keeps both settings
/// ("when CRC checking is enabled it accepts exactly those inputs whose checksum matches" presupposes that
/// enabling it is not lost on the way)
vproof!(c10_dearmor_options_builder, 4, {
    let n: usize = kani::any();
    let m: usize = kani::any();
    let a = DearmorOptions::new().enable_crc24_check().set_limit(n);
    assert!(a.crc24_check && a.limit == n, "C10: DearmorOptions: set_limit after enable_crc24_check loses a setting");
    let b = DearmorOptions::new().set_limit(n).enable_crc24_check();
    assert!(b.crc24_check && b.limit == n, "C10: DearmorOptions: enable_crc24_check after set_limit loses a setting");
    let c = DearmorOptions::new().set_limit(n).set_limit(m);
    assert!(!c.crc24_check && c.limit == m, "C10: DearmorOptions: CRC checking on without being asked for, or limit not the last one set");
    let d = DearmorOptions::default();
    assert!(!d.crc24_check, "C10: CRC checking must be off by default (RFC 9580 6.1)");
});
