// C04: reading the check value of locked secret key material that arrived from the wire: the parser accepts any
// length of protected data (also 0 or 1 octets), so the public accessor EncryptedSecretParams::checksum /
// SecretParams::checksum must not panic on it.
#![allow(unused, dead_code)]
use bytes::Bytes;

use super::__verif_common::*;
use crate::crypto::hash::HashAlgorithm;
use crate::crypto::sym::SymmetricKeyAlgorithm;
use crate::types::{EncryptedSecretParams, S2kParams, StringToKey};

fn checksum_of_short<const SHA1: bool, const N: usize>() {
    let body: [u8; N] = kani::any();
    let stat: &'static [u8; N] = Box::leak(Box::new(body));
    static IV: [u8; 16] = [0u8; 16];
    let s2k = StringToKey::Simple { hash_alg: HashAlgorithm::Sha256 };
    let params = if SHA1 {
        S2kParams::Cfb { sym_alg: SymmetricKeyAlgorithm::AES128, s2k, iv: Bytes::from_static(&IV) }
    } else {
        S2kParams::MalleableCfb { sym_alg: SymmetricKeyAlgorithm::AES128, s2k, iv: Bytes::from_static(&IV) }
    };
    let locked = core::mem::ManuallyDrop::new(EncryptedSecretParams::new(Bytes::from_static(&stat[..]), params));
    let c = core::mem::ManuallyDrop::new(locked.checksum());
    let want = if SHA1 { 20 } else { 2 };
    assert!(c.len() <= want, "C04/C05: check value longer than its type allows");
    if N >= want {
        assert!(c.len() == want && c[want - 1] == body[N - 1], "C05: check value is not the trailing octets of the protected data");
    }
}
vproof!(c04_secret_checksum_255_0, 24, { checksum_of_short::<false, 0>() });
vproof!(c04_secret_checksum_255_1, 24, { checksum_of_short::<false, 1>() });
vproof!(c04_secret_checksum_255_3, 24, { checksum_of_short::<false, 3>() });
vproof!(c04_secret_checksum_254_19, 24, { checksum_of_short::<true, 19>() });
vproof!(c04_secret_checksum_254_21, 24, { checksum_of_short::<true, 21>() });
