// C05 (API-built / API-mutated objects): announced lengths stay truthful after mutation through the
// public API.  Child module of packet/signature/types.rs.
#![allow(unused, dead_code, unsafe_code, static_mut_refs)]
use bytes::Bytes;

use super::*;
use crate::packet::{SubpacketLength, SignatureConfig};
use crate::__verif_common::*;

/// KeyFlags built through the setters (any subset of the 10 flags): write_len == octets written, and the
/// written octets carry exactly the flags that were set
vproof!(c05_keyflags_setters, 12, {
    let mut kf = KeyFlags::default();
    let f: [bool; 10] = kani::any();
    kf.set_certify(f[0]);
    kf.set_sign(f[1]);
    kf.set_encrypt_comms(f[2]);
    kf.set_encrypt_storage(f[3]);
    kf.set_shared(f[4]);
    kf.set_authentication(f[5]);
    kf.set_group(f[6]);
    kf.set_adsk(f[7]);
    kf.set_timestamping(f[8]);
    let mut w = FixW::<8>::new();
    assert!(is_okf(kf.to_writer(&mut w)));
    kani::cover!(f[7], "second flag octet in use");
    assert!(w.len == kf.write_len(), "C05: KeyFlags::write_len != octets written after setters");
    assert!(w.len == if f[7] || f[8] { 2 } else { 1 }, "C05: KeyFlags encoding length");
    // RFC 9580 5.2.3.29 bit positions of the first octet
    let b0 = (f[0] as u8) | ((f[1] as u8) << 1) | ((f[2] as u8) << 2) | ((f[3] as u8) << 3) | ((f[4] as u8) << 4) | ((f[5] as u8) << 5) | ((f[6] as u8) << 7);
    assert!(w.buf[0] == b0, "C05: KeyFlags first octet");
    if w.len == 2 {
        assert!(w.buf[1] == ((f[7] as u8) << 2) | ((f[8] as u8) << 3), "C05: KeyFlags second octet");
    }
    core::mem::forget(kf);
});

/// push then remove an unhashed subpacket: the header's announced length follows write_len exactly, for
/// subpackets whose length field takes one or two octets
fn push_remove<const BODY: usize>() {
    static FILL: [u8; 200] = [0xEE; 200];
    let t: u32 = kani::any();
    let cfg = SignatureConfig::v4(SignatureType::Binary, PublicKeyAlgorithm::RSA, HashAlgorithm::Sha256);
    // stack-backed areas with spare capacity (insert must not reallocate)
    let mut hstore = core::mem::MaybeUninit::<[Subpacket; 1]>::uninit();
    let mut ustore = core::mem::MaybeUninit::<[Subpacket; 2]>::uninit();
    let mut cfg = cfg;
    cfg.hashed_subpackets = stack_vec_empty!(hstore, Subpacket);
    #[allow(unsafe_code)]
    let un: Vec<Subpacket> = unsafe { Vec::from_raw_parts(ustore.as_mut_ptr() as *mut Subpacket, 0, 2) };
    cfg.unhashed_subpackets = un;
    let len0: u32 = kani::any();
    kani::assume(len0 >= 10 && len0 <= 70000);
    let mut sig = Signature {
        packet_header: PacketHeader::new_fixed(Tag::Signature, len0),
        inner: InnerSignature::Known { config: cfg, signed_hash_value: [0, 0], signature: SignatureBytes::Native(Bytes::from_static(b"mock")) },
    };
    let data = SubpacketData::Other(60, Bytes::from_static(&FILL[..BODY]));
    let sp = Subpacket { is_critical: false, data, len: SubpacketLength::encode((BODY + 1) as u32) };
    let spl = sp.write_len();
    assert!(spl == BODY + 1 + if BODY + 1 < 192 { 1 } else { 2 }, "C05: Subpacket::write_len");
    assert!(is_okf(sig.unhashed_subpacket_push(sp)), "C05: push failed");
    assert!(sig.packet_header.packet_length() == PacketLength::Fixed(len0 + spl as u32), "C05: header length after push");
    match okf(sig.unhashed_subpacket_remove(0)) {
        None => assert!(false, "C05: remove failed"),
        Some(sp2) => {
            assert!(sig.packet_header.packet_length() == PacketLength::Fixed(len0), "C05: header length after push+remove is not the original length");
            core::mem::forget(sp2);
        }
    }
    core::mem::forget(sig);
}
vproof!(c05_unhashed_push_remove_small, 6, { push_remove::<5>() });
vproof!(c05_unhashed_push_remove_2octet_len, 6, { push_remove::<195>() });

/// composite length: SignedKeyDetails with one direct-key signature (v4, creation-time subpacket, opaque
/// signature octets): write_len == octets written by to_writer (tag octet + length octets + body)
vproof!(c05_details_write_len, 12, {
    use crate::composed::SignedKeyDetails;
    use crate::ser::Serialize;
    use crate::types::Timestamp;
    let t: u32 = kani::any();
    let sp = Subpacket { is_critical: false, data: SubpacketData::SignatureCreationTime(Timestamp::from_secs(t)), len: SubpacketLength::One(5) };
    let mut harr = core::mem::ManuallyDrop::new([sp]);
    let mut ustore = core::mem::MaybeUninit::<[Subpacket; 1]>::uninit();
    let mut cfg = SignatureConfig::v4(SignatureType::Key, PublicKeyAlgorithm::RSA, HashAlgorithm::Sha256);
    cfg.hashed_subpackets = stack_vec!(harr, 1);
    cfg.unhashed_subpackets = stack_vec_empty!(ustore, Subpacket);
    // body: version(1) type(1) pk(1) hash(1) hashed-len(2) hashed(6) unhashed-len(2) hash-prefix(2) sig(4) = 20
    let sig = Signature {
        packet_header: PacketHeader::new_fixed(Tag::Signature, 20),
        inner: InnerSignature::Known { config: cfg, signed_hash_value: [1, 2], signature: SignatureBytes::Native(Bytes::from_static(b"mock")) },
    };
    assert!(sig.write_len() == 20, "C05: Signature::write_len");
    let mut sarr = core::mem::ManuallyDrop::new([sig]);
    let mut s0 = core::mem::MaybeUninit::<[Signature; 1]>::uninit();
    let mut u0 = core::mem::MaybeUninit::<[crate::types::SignedUser; 1]>::uninit();
    let mut a0 = core::mem::MaybeUninit::<[crate::types::SignedUserAttribute; 1]>::uninit();
    let details = core::mem::ManuallyDrop::new(SignedKeyDetails {
        revocation_signatures: stack_vec_empty!(s0, Signature),
        direct_signatures: stack_vec!(sarr, 1),
        users: stack_vec_empty!(u0, crate::types::SignedUser),
        user_attributes: stack_vec_empty!(a0, crate::types::SignedUserAttribute),
    });
    let mut w = FixW::<40>::new();
    assert!(is_okf(details.to_writer(&mut w)), "C05: writing key details failed");
    assert!(w.len == 22, "C05: a 20-octet signature body is written as tag + 1 length octet + body");
    assert!(details.write_len() == w.len, "C05: SignedKeyDetails::write_len != octets written");
    assert!(w.buf[0] == 0xC2 && w.buf[1] == 20, "C05: signature packet header");
});
