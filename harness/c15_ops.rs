// C15 / C02: a one-pass header that disagrees with its trailing signature invalidates it.
// OnePassSignature::matches as a truth table: every single-field mismatch (type, hash, pk algorithm,
// version pairing, v6 salt) => false; full agreement => true.  Child module of one_pass_signature.rs.
#![allow(unused, dead_code, unsafe_code)]
use bytes::Bytes;

use super::*;
use crate::__verif_common::*;
use crate::packet::{SignatureConfig, Subpacket};

/// OPS kind: 0 = v3, 1 = v6, 2 = unknown version; SIG6: signature version 6
fn matches_case<const OPS: u8, const SIG6: bool>() {
    let ot: u8 = kani::any();
    let oh: u8 = kani::any();
    let op: u8 = kani::any();
    let st: u8 = kani::any();
    let sh: u8 = kani::any();
    let sp: u8 = kani::any();
    let osalt: [u8; 16] = {
        let mut s = [0x11u8; 16];
        s[0] = kani::any();
        s[15] = kani::any();
        s
    };
    let ssalt: [u8; 16] = {
        let mut s = [0x11u8; 16];
        s[0] = kani::any();
        s[15] = kani::any();
        s
    };
    let osalt_s: &'static [u8; 16] = Box::leak(Box::new(osalt));
    let uv: u8 = kani::any();
    let vs = match OPS {
        0 => OpsVersionSpecific::V3 { key_id: KeyId::new([1; 8]) },
        1 => OpsVersionSpecific::V6 { salt: Bytes::from_static(&osalt_s[..]), fingerprint: [2; 32] },
        _ => OpsVersionSpecific::Unknown { version: uv, data: Bytes::new() },
    };
    let ops = core::mem::ManuallyDrop::new(OnePassSignature {
        packet_header: PacketHeader::new_fixed(Tag::OnePassSignature, 13),
        typ: SignatureType::from(ot),
        hash_algorithm: HashAlgorithm::from(oh),
        pub_algorithm: PublicKeyAlgorithm::from(op),
        last: 1,
        version_specific: vs,
    });
    let mut cfg = if SIG6 {
        SignatureConfig::v6_with_salt(SignatureType::from(st), PublicKeyAlgorithm::from(sp), HashAlgorithm::from(sh), ssalt.to_vec())
    } else {
        SignatureConfig::v4(SignatureType::from(st), PublicKeyAlgorithm::from(sp), HashAlgorithm::from(sh))
    };
    let mut hs = core::mem::MaybeUninit::<[Subpacket; 1]>::uninit();
    cfg.hashed_subpackets = stack_vec_empty!(hs, Subpacket);
    let mut us = core::mem::MaybeUninit::<[Subpacket; 1]>::uninit();
    cfg.unhashed_subpackets = stack_vec_empty!(us, Subpacket);
    let sig = match okf(Signature::from_config(cfg, [0, 0], crate::types::SignatureBytes::Native(Bytes::from_static(b"mock")))) {
        Some(s) => core::mem::ManuallyDrop::new(s),
        None => return,
    };
    let fields = ot == st && oh == sh && op == sp;
    let versions = (OPS == 0 && !SIG6) || (OPS == 1 && SIG6);
    let salts = OPS != 1 || !SIG6 || (osalt[0] == ssalt[0] && osalt[15] == ssalt[15]);
    let want = fields && versions && salts;
    let got = ops.matches(&sig);
    kani::cover!(got, "maybe: matching pair accepted");
    kani::cover!(!got);
    assert!(got == want, "C15/C02: OnePassSignature::matches deviates from: equal type, hash and pk algorithm, v3<->v4 / v6<->v6 pairing, equal salt");
}
vproof!(c15_ops_v3_sig4, 18, { matches_case::<0, false>() });
vproof!(c15_ops_v3_sig6, 18, { matches_case::<0, true>() });
vproof!(c15_ops_v6_sig6, 18, { matches_case::<1, true>() });
vproof!(c15_ops_v6_sig4, 18, { matches_case::<1, false>() });
vproof!(c15_ops_unknown_sig4, 18, { matches_case::<2, false>() });
