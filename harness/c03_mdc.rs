// C03 (SEIPDv1, last step): the MDC decision of the real CFB stream decryptor.  The state "all ciphertext read
// and decrypted" is built directly (child module of src/crypto/sym/decryptor.rs); the 22 trailing octets are
// arbitrary.  finalize_data must accept exactly D3 14 || digest, and after a refusal the reader is in its error
// state: every later read fails, the stream never ends cleanly and (check-first mode) no octet is released.
#![allow(unused, dead_code)]
use std::io::Read;

use super::*;
use crate::__verif_common::*;

type Inner<'a> = StreamDecryptorInner<Aes128, &'a [u8]>;

/// SHA-1 compression is a no-op under Kani: the digest of anything is the SHA-1 initial state (the decision
/// logic around it is what is checked; that the digest covers prefix and plaintext is C12's layout claim)
pub fn stub_sha1_compress(_state: &mut [u32; 5], _blocks: &[generic_array::GenericArray<u8, generic_array::typenum::U64>]) {}
const H0: [u8; 20] = [0x67, 0x45, 0x23, 0x01, 0xEF, 0xCD, 0xAB, 0x89, 0x98, 0xBA, 0xDC, 0xFE, 0x10, 0x32, 0x54, 0x76, 0xC3, 0xD2, 0xE1, 0xF0];

fn dec() -> BufDecryptor<Aes128> {
    let key = [7u8; 16];
    let iv = [0u8; 16];
    match okf(BufDecryptor::<Aes128>::new_from_slices(&key, &iv)) {
        Some(e) => e,
        None => unreachable!(),
    }
}

fn mdc_decision<const CHECK_FIRST: bool>() {
    let plain: [u8; 2] = kani::any();
    let mdc: [u8; 22] = kani::any();
    let mut all = [0u8; 24];
    all[0] = plain[0];
    all[1] = plain[1];
    let mut i = 0;
    while i < 22 {
        all[2 + i] = mdc[i];
        i += 1;
    }
    let src: &[u8] = &[];
    let protected = if CHECK_FIRST {
        MaybeProtected::ProtectedCheckFirst { hasher: Sha1::default(), max_message_size: 1024 }
    } else {
        MaybeProtected::ProtectedStreaming { hasher: Sha1::default() }
    };
    let mut st = core::mem::ManuallyDrop::new(Inner::Data {
        data_available: 0,
        decryptor: dec(),
        buffer: BytesMut::from(&all[..]),
        source: src,
        protected,
    });
    let ok = is_okf(st.finalize_data());
    let mut good = mdc[0] == 0xD3 && mdc[1] == 0x14;
    let mut k = 0;
    while k < 20 {
        good = good && mdc[2 + k] == H0[k];
        k += 1;
    }
    kani::cover!(ok, "a correct MDC is accepted");
    assert!(ok == good, "C03: SEIPDv1 MDC accepted/refused against: tag D3, length 14, all 20 digest octets equal");
    if ok {
        match &*st {
            StreamDecryptorInner::Done { buffer, .. } => {
                assert!(buffer.len() == 2 && buffer[0] == plain[0] && buffer[1] == plain[1], "C03: plaintext after a good MDC is not the data before the MDC");
            }
            _ => assert!(false, "C03: good MDC but the reader is not in its final state"),
        }
    } else {
        // (what a read does in that state: c03_error_state_is_sticky; not chained here, a symbolic state variant
        // would make the next call explore every arm)
        assert!(matches!(&*st, StreamDecryptorInner::Error), "C03: bad MDC but the reader is not in its error state");
    }
}

/// every way of reading from the error state fails and stays there: no clean end of stream, no octet released
fn error_state_is_sticky() {
    let mut st = core::mem::ManuallyDrop::new(Inner::Error);
    let blen: usize = kani::any();
    kani::assume(blen <= 4);
    let mut out = [0u8; 4];
    assert!(!is_okf(st.read(&mut out[..blen])), "C03: a read after a failed MDC check succeeds (clean end of stream / plaintext release)");
    assert!(matches!(&*st, StreamDecryptorInner::Error), "C03: the error state was left");
    assert!(!is_okf(st.fill_inner()), "C03: fill after a failed MDC check succeeds");
    assert!(matches!(&*st, StreamDecryptorInner::Error), "C03: the error state was left");
}

macro_rules! mproof {
    ($name:ident, $uw:expr, $body:block) => {
        #[kani::proof]
        #[kani::unwind($uw)]
        #[kani::stub(std::fmt::format, crate::__verif_common::stub_format)]
        #[kani::stub(snafu::backtrace_collection_enabled, crate::__verif_common::stub_bt)]
        #[kani::stub(std::arch::x86_64::__cpuid_count, crate::__verif_common::stub_cpuid)]
        #[kani::stub(sha1::compress::compress, stub_sha1_compress)]
        fn $name() $body
    };
}
mproof!(c03_mdc_decision_streaming, 66, { mdc_decision::<false>() });
mproof!(c03_mdc_decision_check_first, 66, { mdc_decision::<true>() });
mproof!(c03_error_state_is_sticky, 6, { error_state_is_sticky() });
