// C15 (a): session-key packets whose version does not match the container are ignored.
// Whole-message parse of a tiny message: ESK packet(s) followed by an encryption container header.
#![allow(unused, dead_code)]
use super::__verif_common::*;
use crate::composed::{Esk, Message};
use crate::types::{PkeskVersion, SkeskVersion};

/// SKESK with symbolic version octet in front of SEIPDv1
vproof!(c15_esk_skesk_seipd1, 6, {
    let v: u8 = kani::any();
    // SKESK: tag 3, len 4: version, AES128, S2K simple, SHA256 ; SEIPD: tag 18, len 5: version 1 + 4 octets
    let msg: [u8; 13] = [0xC3, 4, v, 7, 0, 8, 0xD2, 5, 1, 0xAA, 0xBB, 0xCC, 0xDD];
    let msg: &'static [u8; 13] = Box::leak(Box::new(msg));
    match okf(Message::from_bytes(&msg[..])) {
        None => {
            // unparsable SKESK versions make the whole message unparsable only if the packet itself is malformed
            kani::cover!(true, "message rejected");
        }
        Some(m) => {
            match &m {
                Message::Encrypted { esk, .. } => {
                    kani::cover!(esk.len() == 1, "aligned SKESK kept");
                    kani::cover!(esk.is_empty(), "misaligned SKESK dropped");
                    assert!((esk.len() == 1) == (v == 4), "C15: SKESK kept iff its version matches SEIPDv1 (v4)");
                }
                _ => assert!(false, "C15: ESK + SEIPD must parse as an encrypted message"),
            }
            core::mem::forget(m);
        }
    }
});
