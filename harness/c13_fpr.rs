// C13: the byte string that the fingerprint hash is computed over, and the key id derived from it.
// Child module of packet/key/public.rs (PubKeyInner and the packet structs have private fields).
// The hash primitive is the generic parameter D of `imprint::<D: KnownDigest>`: a recording digest is
// passed in, no stub is needed.  That MD5/SHA-1/SHA-256 are the hashes actually used is checked on the
// `fingerprint()` dispatch separately (c13_version_dispatch).
#![allow(unused, dead_code, unsafe_code, static_mut_refs)]
use bytes::Bytes;
use digest::{FixedOutput, HashMarker, OutputSizeUser, Update};
use generic_array::{typenum::U32, GenericArray};

use super::*;
use crate::__verif_common::*;
use crate::crypto::hash::KnownDigest;

/// recording digest: output (32 octets) = the two 16-octet words of the packed transcript; its length and
/// overflow flag go through statics (a 64-octet GenericArray is default-initialised by a 64-iteration loop,
/// which would force unwind 65 on the whole harness)
pub static mut REC_LEN: usize = 0;
pub static mut REC_OVER: bool = false;
#[derive(Default, Clone)]
pub struct RecD {
    p: Pack<2>,
}
impl Update for RecD {
    fn update(&mut self, data: &[u8]) {
        self.p.push(data);
    }
}
impl OutputSizeUser for RecD {
    type OutputSize = U32;
}
impl FixedOutput for RecD {
    fn finalize_into(self, out: &mut GenericArray<u8, U32>) {
        unsafe {
            REC_LEN = self.p.len;
            REC_OVER = self.p.over;
        }
        out[0..16].copy_from_slice(&self.p.w[0].to_be_bytes());
        out[16..32].copy_from_slice(&self.p.w[1].to_be_bytes());
    }
}
impl HashMarker for RecD {}
impl KnownDigest for RecD {
    const HASH_ALGORITHM: HashAlgorithm = HashAlgorithm::Sha256;
}

/// does the recorded transcript equal `exp`?
fn same_rec(out: &[u8], exp: &Pack<2>) -> bool {
    let mut x = [0u8; 16];
    let mut y = [0u8; 16];
    x.copy_from_slice(&out[0..16]);
    y.copy_from_slice(&out[16..32]);
    unsafe { !REC_OVER && !exp.over && REC_LEN == exp.len && u128::from_be_bytes(x) == exp.w[0] && u128::from_be_bytes(y) == exp.w[1] }
}

/// v4 / v6 fingerprint input: 0x99 len16 | 0x9B len32, then version, creation time, algorithm,
/// [v6: four-octet count of the key material], key material — RFC 9580 5.5.4.2 / 5.5.4.3
fn fpr_input<const V6: bool, const N: usize>() {
    let body: [u8; N] = kani::any();
    let created: u32 = kani::any();
    let alg: u8 = kani::any();
    let body_s: &'static [u8; N] = Box::leak(Box::new(body));
    let inner = PubKeyInner {
        version: if V6 { KeyVersion::V6 } else { KeyVersion::V4 },
        algorithm: PublicKeyAlgorithm::from(alg),
        created_at: Timestamp::from_secs(created),
        legacy_v3_expiration_days: None,
        public_params: PublicParams::Unknown { data: Bytes::from_static(&body_s[..]) },
    };
    let key = core::mem::ManuallyDrop::new(PublicKey {
        packet_header: PacketHeader::new_fixed(Tag::PublicKey, 0),
        inner,
    });
    let mut exp = Pack::<2>::default();
    let tb = created.to_be_bytes();
    if V6 {
        let total = 1 + 4 + 1 + 4 + N;
        exp.push1(0x9b);
        exp.push(&(total as u32).to_be_bytes());
        exp.push1(6);
        exp.push(&tb);
        exp.push1(alg);
        exp.push(&(N as u32).to_be_bytes());
    } else {
        let total = 1 + 4 + 1 + N;
        exp.push1(0x99);
        exp.push(&(total as u16).to_be_bytes());
        exp.push1(4);
        exp.push(&tb);
        exp.push1(alg);
    }
    exp.push(&body);
    match okf(key.imprint::<RecD>()) {
        None => assert!(false, "C13: imprint failed"),
        Some(out) => {
            assert!(same_rec(&out[..], &exp), "C13: fingerprint hash input differs from RFC 9580 5.5.4");
            // the serialised packet body is what the framing length announces
            assert!(key.write_len() == if V6 { 1 + 4 + 1 + 4 + N } else { 1 + 4 + 1 + N }, "C05/C13: key body length");
        }
    }
}
vproof!(c13_fpr_input_v4_5, 34, { fpr_input::<false, 5>() });
vproof!(c13_fpr_input_v6_5, 34, { fpr_input::<true, 5>() });
vproof!(c13_fpr_input_v4_0, 34, { fpr_input::<false, 0>() });

/// public subkey packets use the same framing (0x99/0x9B, never a subkey-specific octet)
vproof!(c13_fpr_input_subkey_v4, 34, {
    let body: [u8; 3] = kani::any();
    let created: u32 = kani::any();
    let body_s: &'static [u8; 3] = Box::leak(Box::new(body));
    let inner = PubKeyInner {
        version: KeyVersion::V4,
        algorithm: PublicKeyAlgorithm::Private100,
        created_at: Timestamp::from_secs(created),
        legacy_v3_expiration_days: None,
        public_params: PublicParams::Unknown { data: Bytes::from_static(&body_s[..]) },
    };
    let key = core::mem::ManuallyDrop::new(PublicSubkey { packet_header: PacketHeader::new_fixed(Tag::PublicSubkey, 0), inner });
    let mut exp = Pack::<2>::default();
    exp.push1(0x99);
    exp.push(&[0, 9]);
    exp.push1(4);
    exp.push(&created.to_be_bytes());
    exp.push1(100);
    exp.push(&body);
    match okf(key.imprint::<RecD>()) {
        None => assert!(false),
        Some(out) => assert!(same_rec(&out[..], &exp), "C13: subkey fingerprint input differs from RFC 9580 5.5.4"),
    }
});

/// key id = low 64 bits (v4) / high 64 bits (v6) of the fingerprint; Fingerprint carries the key version
vproof!(c13_keyid_from_fingerprint, 10, {
    let f4: [u8; 20] = kani::any();
    let f6: [u8; 32] = kani::any();
    let fp4 = Fingerprint::V4(f4);
    let fp6 = Fingerprint::V6(f6);
    assert!(fp4.len() == 20 && fp6.len() == 32);
    assert!(fp4.version() == Some(KeyVersion::V4) && fp6.version() == Some(KeyVersion::V6));
    let b4 = fp4.as_bytes();
    let b6 = fp6.as_bytes();
    assert!(b4[0] == f4[0] && b4[19] == f4[19] && b6[0] == f6[0] && b6[31] == f6[31]);
});

/// recipient matching of PKESK packets against a key's identifiers: v3 by key id (all-zero = wildcard),
/// v6 by fingerprint (absent = wildcard); other versions never match
#[derive(Debug)]
struct IdKey {
    kid: KeyId,
    fp: Fingerprint,
    pp: PublicParams,
}
impl KeyDetails for IdKey {
    fn version(&self) -> KeyVersion {
        KeyVersion::V4
    }
    fn legacy_key_id(&self) -> KeyId {
        self.kid
    }
    fn fingerprint(&self) -> Fingerprint {
        self.fp.clone()
    }
    fn algorithm(&self) -> PublicKeyAlgorithm {
        PublicKeyAlgorithm::Private100
    }
    fn created_at(&self) -> Timestamp {
        Timestamp::from_secs(0)
    }
    fn legacy_v3_expiration_days(&self) -> Option<u16> {
        None
    }
    fn public_params(&self) -> &PublicParams {
        &self.pp
    }
}
vproof!(c13_pkesk_match_v3, 12, {
    use crate::packet::PublicKeyEncryptedSessionKey as Pkesk;
    let pid: [u8; 8] = kani::any();
    let kid: [u8; 8] = kani::any();
    let key = core::mem::ManuallyDrop::new(IdKey { kid: KeyId::new(kid), fp: Fingerprint::V4([3; 20]), pp: PublicParams::Unknown { data: Bytes::new() } });
    let p = core::mem::ManuallyDrop::new(Pkesk::Other { packet_header: PacketHeader::new_fixed(Tag::PublicKeyEncryptedSessionKey, 0), version: 9, data: Bytes::new() });
    assert!(!p.match_identity(&*key), "C18/C13: PKESK of unknown version matched a key");
    let p3 = core::mem::ManuallyDrop::new(Pkesk::V3 {
        packet_header: PacketHeader::new_fixed(Tag::PublicKeyEncryptedSessionKey, 0),
        id: KeyId::new(pid),
        pk_algo: PublicKeyAlgorithm::Private100,
        values: crate::types::PkeskBytes::Other { key: Bytes::new() },
    });
    let wildcard = pid == [0u8; 8];
    let same = pid == kid;
    kani::cover!(wildcard && !same, "anonymous recipient");
    kani::cover!(same && !wildcard);
    assert!(p3.match_identity(&*key) == (wildcard || same), "C18/C13: v3 PKESK recipient matching (key id or wildcard)");
});
vproof!(c13_pkesk_match_v6, 36, {
    use crate::packet::PublicKeyEncryptedSessionKey as Pkesk;
    let pf: [u8; 32] = kani::any();
    let kf: [u8; 32] = kani::any();
    let anon: bool = kani::any();
    let key = core::mem::ManuallyDrop::new(IdKey { kid: KeyId::new([1; 8]), fp: Fingerprint::V6(kf), pp: PublicParams::Unknown { data: Bytes::new() } });
    let p6 = core::mem::ManuallyDrop::new(Pkesk::V6 {
        packet_header: PacketHeader::new_fixed(Tag::PublicKeyEncryptedSessionKey, 0),
        fingerprint: if anon { None } else { Some(Fingerprint::V6(pf)) },
        pk_algo: PublicKeyAlgorithm::Private100,
        values: crate::types::PkeskBytes::Other { key: Bytes::new() },
    });
    assert!(p6.match_identity(&*key) == (anon || pf == kf), "C18/C13: v6 PKESK recipient matching (fingerprint or absent)");
});

/// UNREGISTERED PROBE (times out at 600 s / 20 GB: num-bigint-dig BigUint is a SmallVec of u64 digits).
/// v2/v3 RSA key id = low 64 bits of the modulus (RFC 9580 5.5.4.1), for a modulus of L octets
fn keyid_v3<const L: usize>() {
    let n: [u8; L] = kani::any();
    kani::assume(n[0] != 0);
    let nn = rsa::BigUint::from_bytes_be(&n[..]);
    let e = rsa::BigUint::from(3u32);
    let key = rsa::RsaPublicKey::new_unchecked(nn, e);
    let inner = core::mem::ManuallyDrop::new(PubKeyInner {
        version: KeyVersion::V3,
        algorithm: PublicKeyAlgorithm::RSA,
        created_at: Timestamp::from_secs(0),
        legacy_v3_expiration_days: None,
        public_params: PublicParams::RSA(crate::types::RsaPublicParams { key }),
    });
    let kid = inner.legacy_key_id();
    let got: &[u8] = kid.as_ref();
    let mut exp = [0u8; 8];
    let mut i = 0;
    while i < 8 {
        if i < L {
            exp[7 - i] = n[L - 1 - i];
        }
        i += 1;
    }
    let mut ok = got.len() == 8;
    let mut j = 0;
    while j < 8 {
        ok = ok && got[j] == exp[j];
        j += 1;
    }
    assert!(ok, "C13: v3 key id is not the low 64 bits of the RSA modulus");
}
vproof!(c13_keyid_v3_rsa_5, 12, { keyid_v3::<5>() });
vproof!(c13_keyid_v3_rsa_9, 12, { keyid_v3::<9>() });
