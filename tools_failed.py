#!/usr/bin/env python3
import json, sys
d = json.load(open(sys.argv[1]))
for r in d["verification_results"]["results"]:
    bad = [c for c in r.get("checks", []) if c["status"] not in ("Success", "Satisfied")]
    if bad or r["status"] != "Success":
        print("==", r["harness_id"], r["status"])
        seen = set()
        for c in bad:
            k = (c["status"], c["description"][:100], c["location"].get("file", "")[-40:], c["location"].get("line"))
            if k in seen: continue
            seen.add(k)
            print("   ", *k, c.get("function", "")[:80])
            if len(seen) > 8: break
