#!/usr/bin/env python3
"""Runner for the solver-based checks of rPGP.

    run.py <PROPERTY> [--tier quick|thorough] [--only REGEX] [--jobs N] [--keep]
    run.py --replay <replay.json>
    run.py --setup

For one property it
  1. copies /repo's *current working tree* (src, Cargo.toml, Cargo.lock, README.md, benches) to a
     scratch directory outside /repo and /verif,
  2. injects the property's harness modules (cfg(kani) only) into the copy,
  3. runs `cargo kani` (rustc -> MIR -> goto -> CBMC -> CaDiCaL) over the harness list of the tier,
  4. classifies each harness from Kani's JSON export (verdict, covers, CBMC statistics),
  5. for a failed harness: asks Kani for the concrete counterexample and replays it natively
     (cargo kani playback: real code, real primitives, no stubs); only reproducing counterexamples
     that are not listed in known_findings.json become VIOLATION lines,
  6. writes evidence/<id>.json and removes the scratch copy.

Exit codes: 0 = held on everything explored (or only listed known findings), 1 = VIOLATION,
2 = inconclusive (build failure, timeout, out of memory, non-reproducing counterexample, vacuous
harness).  A timeout is never reported as success.
"""
import argparse
import fcntl
import json
import os
import random
import re
import shutil
import subprocess
import sys
import time

VERIF = os.path.dirname(os.path.abspath(__file__))
REPO = os.environ.get("RPGP_REPO", "/repo")
CACHE = os.path.join(VERIF, ".cache")
SCRATCH_ROOT = os.environ.get("VERIF_SCRATCH", "/tmp")
OUT = os.path.join(VERIF, "out")
TRIPLE = "x86_64-unknown-linux-gnu"

sys.path.insert(0, VERIF)
import registry  # noqa: E402

KANI_FLAGS = [
    "-Z", "stubbing", "-Z", "unstable-options", "-Z", "restrict-vtable",
    "--no-memory-safety-checks", "--no-assertion-reach-checks",
]


def log(*a):
    print(*a, flush=True)


def env_for(slot_dir):
    e = dict(os.environ)
    e["CARGO_NET_OFFLINE"] = "true"
    e["CARGO_TARGET_DIR"] = slot_dir
    e["CARGO_TERM_COLOR"] = "never"
    e.pop("RUSTUP_TOOLCHAIN", None)
    return e


# ------------------------------------------------------------------------------------------------
# slots: a slot = (target dir, scratch dir, lock).  Several properties can be checked concurrently,
# each on its own slot; a cold slot is primed by copying slot 0's compiled dependencies.
class Slot:
    def __init__(self):
        os.makedirs(CACHE, exist_ok=True)
        self.fd = None
        for k in range(16):
            fd = open(os.path.join(CACHE, "slot%d.lock" % k), "w")
            try:
                fcntl.flock(fd, fcntl.LOCK_EX | fcntl.LOCK_NB)
            except OSError:
                fd.close()
                continue
            self.fd = fd
            self.k = k
            break
        if self.fd is None:
            raise SystemExit("no free slot")
        self.target = os.path.join(CACHE, "kt%d" % self.k)
        self.scratch = os.path.join(SCRATCH_ROOT, "rpgp-verif-slot%d" % self.k)
        if not os.path.isdir(self.target) and self.k != 0:
            src = os.path.join(CACHE, "kt0")
            if os.path.isdir(os.path.join(src, "kani")):
                subprocess.call(["cp", "-a", src, self.target])
        self.prune()

    def prune(self):
        # artefacts of the pgp crate itself are rebuilt on every run; drop stale ones
        for sub in ("kani/%s/debug/build/pgp" % TRIPLE, "kani/%s/debug/incremental" % TRIPLE,
                    "debug/incremental"):
            shutil.rmtree(os.path.join(self.target, sub), ignore_errors=True)

    def release(self, keep=False):
        if not keep:
            shutil.rmtree(self.scratch, ignore_errors=True)
        self.prune()
        fcntl.flock(self.fd, fcntl.LOCK_UN)
        self.fd.close()


def make_scratch(slot, prop):
    """copy the current working tree of /repo and inject the harness modules"""
    shutil.rmtree(slot.scratch, ignore_errors=True)
    os.makedirs(slot.scratch)
    for item in ("src", "Cargo.toml", "Cargo.lock", "README.md", "benches"):
        p = os.path.join(REPO, item)
        if os.path.exists(p):
            subprocess.check_call(["rsync", "-a", p, slot.scratch + "/"])
    vdir = os.path.join(slot.scratch, "src", "__verif")
    os.makedirs(vdir)
    mods = [("src/lib.rs", "common")] + [(h, m) for (h, m) in prop["inject"]]
    for host, mod in mods:
        src = os.path.join(VERIF, "harness", mod + ".rs")
        dst = os.path.join(vdir, mod + ".rs")
        shutil.copy(src, dst)
        hostp = os.path.join(slot.scratch, host)
        if not os.path.isfile(hostp):
            raise BuildProblem("host file %s for harness module %s no longer exists" % (host, mod))
        with open(hostp, "a") as f:
            f.write('\n#[cfg(kani)]\n#[path = "%s"]\nmod __verif_%s;\n' % (dst, mod))
    # call-site substitutions (environment models that cannot be expressed as kani::stub)
    for rel, old, new in list(SUBSTITUTIONS) + list(prop.get("substitutions", [])):
        fp = os.path.join(slot.scratch, rel)
        if os.path.isfile(fp):
            txt = open(fp).read()
            if old in txt:
                open(fp, "w").write(txt.replace(old, new))
    # logging -> no-op macros (every file of the crate, not the harness modules)
    for root, _dirs, files in os.walk(os.path.join(slot.scratch, "src")):
        if root.endswith("__verif"):
            continue
        for fn in files:
            if fn.endswith(".rs"):
                fp = os.path.join(root, fn)
                txt = open(fp).read()
                new = add_repr_u8(txt)
                new = re.sub(r"\blog::", "crate::__verif_common::", new)
                # every format! in the crate builds an error message (checked: the only others are in tests)
                new = re.sub(r"(?<![\w:])format!\(", "crate::__verif_common::nofmt!(", new)
                if new != txt:
                    open(fp, "w").write(new)
    return vdir


ENUM_RE = re.compile(r"^(\s*)(pub(\([a-z ]+\))?\s+)?enum\s+\w+")


def add_repr_u8(txt):
    """Layout-only transformation: give every enum without an explicit repr an explicit u8 tag.
    Kani/CBMC does not constant-fold discriminants that rustc niche-encodes in a `bool` field
    (measured on SubpacketData: every match explored all 30 arms with garbage payloads); an explicit tag
    is read as an integer and folds.  The crate is #![deny(unsafe_code)], so behaviour does not depend on layout."""
    lines = txt.split("\n")
    out = []
    for i, ln in enumerate(lines):
        m = ENUM_RE.match(ln)
        if m and not ln.strip().startswith("//"):
            j = len(out) - 1
            has_repr = False
            while j >= 0 and (out[j].strip().startswith("#[") or out[j].strip().startswith("///") or out[j].strip().startswith("//")
                              or out[j].strip().endswith(")]") or out[j].strip().endswith(",")):
                if "repr(" in out[j]:
                    has_repr = True
                j -= 1
            if not has_repr:
                out.append(m.group(1) + "#[repr(u8)]")
        out.append(ln)
    return "\n".join(out)


# applied to every scratch copy; each is an environment model and is listed in the evidence assumptions
SUBSTITUTIONS = [
    ("src/packet/signature/ser.rs", "(*inner_sig).to_writer(writer)?;",
     "{ crate::__verif_common::emb_enter(); let r = (*inner_sig).to_writer(writer); crate::__verif_common::emb_leave(); r?; }"),
    ("src/packet/signature/ser.rs", "SubpacketData::EmbeddedSignature(sig) => (*sig).write_len(),",
     "SubpacketData::EmbeddedSignature(sig) => { crate::__verif_common::emb_enter(); let r = (*sig).write_len(); crate::__verif_common::emb_leave(); r }"),
    ("src/packet/signature/de.rs", "let sig = Signature::try_from_reader(header, signature_bytes.reader())?;",
     "crate::__verif_common::emb_enter(); let sig = Signature::try_from_reader(header, signature_bytes.reader()); crate::__verif_common::emb_leave(); let sig = sig?;"),
    ("src/normalize_lines.rs", "memchr::memchr_iter(", "crate::__verif_common::memchr_iter_model("),
]
SUBST_NOTE = ("scratch-copy substitutions: memchr::memchr_iter (x86_64 CPUID/SSE2 dispatch, not encodable) replaced at its "
              "single call site by a naive in-order search model; log::{debug,info,warn}! and the format! inside the crate's "
              "error macros (bail!/ensure!/format_err!/...) replaced by no-ops / empty strings: log output and error "
              "*messages* are outside every claim, error *occurrence* is inside; the three places where a signature "
              "subpacket recurses into an embedded Signature (serialise, write_len, parse) are wrapped in a depth "
              "guard: embedded-signature nesting deeper than the harness' EMB_LIMIT (default 0) is assumed away; "
              "every enum of the crate without an explicit repr gets #[repr(u8)] (layout only: CBMC cannot fold "
              "discriminants that rustc niche-encodes in bool fields)")


class BuildProblem(Exception):
    pass


def host_mod(prop, module):
    """rust module path of the file a harness module is injected into"""
    for host, m in prop["inject"]:
        if m == module:
            p = host[len("src/"):-len(".rs")]
            if p == "lib":
                return ""
            if p.endswith("/mod"):
                p = p[:-4]
            return p.replace("/", "::") + "::"
    raise KeyError(module)


def hid_of(prop, h):
    return "%s__verif_%s::%s" % (host_mod(prop, h["module"]), h["module"], h["name"])


# ------------------------------------------------------------------------------------------------
def run_kani(slot, prop, harnesses, jobs, logdir, extra=(), timeout_pad=120, mem_gb=None):
    """one cargo-kani invocation over `harnesses`; returns (json or None, log path, rc)"""
    os.makedirs(logdir, exist_ok=True)
    jpath = os.path.join(logdir, "kani.json")
    lpath = os.path.join(logdir, "kani.log")
    if os.path.exists(jpath):
        os.remove(jpath)
    tmax = max(h["timeout"] for h in harnesses)
    if os.environ.get("VERIF_TIMEOUT"):
        tmax = int(os.environ["VERIF_TIMEOUT"])
    cmd = ["cargo", "kani"] + KANI_FLAGS + list(prop.get("kani_flags", []))
    feats = prop.get("features")
    if feats:
        cmd += ["--features", ",".join(feats)]
    cmd += ["--harness-timeout", "%ds" % tmax, "--export-json", jpath, "--exact"]
    cmd += list(extra)
    if jobs > 1:
        cmd += ["-j", str(jobs), "--output-format", "terse"]
    for h in harnesses:
        cmd += ["--harness", hid_of(prop, h)]
    mem_kb = int((mem_gb or float(os.environ.get("VERIF_MEM_GB", 0)) or prop.get("mem_gb", 12)) * 1024 * 1024)
    sh = "ulimit -v %d; exec %s" % (mem_kb, " ".join("'%s'" % c for c in cmd))
    rounds = (len(harnesses) + jobs - 1) // jobs
    wall = 600 + rounds * (tmax + timeout_pad)
    t0 = time.time()
    with open(lpath, "w") as lf:
        try:
            rc = subprocess.call(["bash", "-c", sh], cwd=slot.scratch, env=env_for(slot.target),
                                 stdout=lf, stderr=subprocess.STDOUT, timeout=wall)
        except subprocess.TimeoutExpired:
            rc = -9
            subprocess.call(["pkill", "-9", "-x", "cbmc"])
    dt = time.time() - t0
    data = None
    if os.path.exists(jpath):
        try:
            data = json.load(open(jpath))
        except Exception:
            data = None
    return data, lpath, rc, dt


def classify(data, harnesses, prop):
    """per-harness verdicts from Kani's JSON export"""
    res = {}
    by = {}
    if data:
        for r in data.get("verification_results", {}).get("results", []):
            by[r["harness_id"]] = r
        errs = {e["harness_id"]: e for e in data.get("error_details", [])}
        stats = {c["harness_id"]: c.get("cbmc_stats") for c in data.get("cbmc", [])}
    for h in harnesses:
        hid = hid_of(prop, h)
        r = by.get(hid)
        out = {"harness": h["name"], "verdict": "INCONCLUSIVE", "reason": "no result (build failure or crash)",
               "checks": 0, "failed_checks": [], "covers": {}, "stats": None, "duration_s": None}
        if r is not None:
            checks = r.get("checks", []) or []
            out["checks"] = len(checks)
            out["duration_s"] = (r.get("duration_ms") or 0) / 1000.0
            out["stats"] = stats.get(hid)
            failed = [c for c in checks if c.get("status") == "Failure"]
            undet = [c for c in checks if c.get("status") in ("Undetermined",)]
            covers = [c for c in checks if c.get("category") == "cover" or c.get("status") in
                      ("Satisfied", "Unsatisfiable")]
            for c in covers:
                out["covers"][c.get("description", "?")] = c.get("status")
            out["failed_checks"] = [
                {"description": c.get("description"), "function": c.get("function"),
                 "category": c.get("category"),
                 "location": "%s:%s" % (c.get("location", {}).get("file"), c.get("location", {}).get("line"))}
                for c in failed]
            es = errs.get(hid, {}).get("exit_status")
            if r.get("status") == "Success" and not failed:
                # covers whose description starts with "maybe:" are informative only (instance families where
                # the covered situation cannot occur in some instances)
                bad_cov = [d for d, s in out["covers"].items() if s != "Satisfied" and not d.strip('"').startswith("maybe:")]
                if bad_cov:
                    out["verdict"] = "INCONCLUSIVE"
                    out["reason"] = "vacuity witness not satisfied: %s" % bad_cov
                elif undet:
                    out["verdict"] = "INCONCLUSIVE"
                    out["reason"] = "undetermined checks"
                else:
                    out["verdict"] = "SUCCESS"
                    out["reason"] = ""
            elif failed:
                out["verdict"] = "FAILED"
                out["reason"] = "; ".join(sorted(set(str(c["description"]) for c in out["failed_checks"])))[:400]
            else:
                out["verdict"] = "INCONCLUSIVE"
                out["reason"] = "kani exit_status=%s (timeout / out of memory / solver crash)" % es
        res[h["name"]] = out
    return res


# ------------------------------------------------------------------------------------------------
# replay: concrete counterexample -> native unit test against the scratch copy (real primitives)
PLAYBACK_RE = re.compile(r"#\[test\]\s*\n\s*fn (kani_concrete_playback_\w+)\(\)\s*\{.*?\n\}", re.S)


def _norm(t):
    return re.sub(r"[^a-z0-9]+", " ", (t or "").lower()).strip()


def concrete_playback(slot, prop, h, logdir, failed_checks=()):
    """returns dict(reproduced=bool|None, test=src, detail=str)"""
    # trace generation needs more memory than the verdict run
    data, lpath, rc, dt = run_kani(slot, prop, [h], 1, logdir,
                                   extra=["-Z", "concrete-playback", "--concrete-playback", "print"],
                                   mem_gb=max(28, prop.get("mem_gb", 12)))
    txt = open(lpath, errors="replace").read()
    tests = []
    seen_names = set()
    for m in PLAYBACK_RE.finditer(txt):
        if m.group(1) not in seen_names:  # Kani prints the same test once per failed check
            seen_names.add(m.group(1))
            tests.append((m.group(1), m.group(0)))
    if not tests:
        return {"reproduced": None, "detail": "kani produced no concrete playback test", "tests": []}
    modfile = os.path.join(slot.scratch, "src", "__verif", h["module"] + ".rs")
    orig = open(modfile).read()
    results = []
    try:
        with open(modfile, "a") as f:
            f.write("\n#[cfg(kani)]\nmod __verif_playback {\n    use super::*;\n")
            for name, src in tests:
                f.write(src + "\n")
            f.write("}\n")
        for profile in ("dev",):  # cargo kani playback has no --release in 0.68
            for name, src in tests:
                cmd = ["cargo", "kani", "playback", "-Z", "concrete-playback"]
                feats = prop.get("features")
                if feats:
                    cmd += ["--features", ",".join(feats)]
                if profile == "release":
                    cmd += ["--release"]
                cmd += ["--", name, "--nocapture"]  # a panic followed by an abort must still show its message
                e = env_for(os.path.join(CACHE, "playback-target"))
                p = subprocess.run(cmd, cwd=slot.scratch, env=e, stdout=subprocess.PIPE,
                                   stderr=subprocess.STDOUT, timeout=3600)
                o = p.stdout.decode(errors="replace")
                ran = re.search(r"test result: (\w+)\. (\d+) passed; (\d+) failed", o)
                status = "error"
                if ran:
                    status = "failed" if int(ran.group(3)) > 0 else ("passed" if int(ran.group(2)) > 0 else "not-run")
                panic = ""
                m = re.search(r"panicked at ([^\n]*)\n([^\n]*)", o)
                if m:
                    panic = (m.group(1) + " " + m.group(2))[:300]
                    if status in ("error", "not-run"):
                        # the test panicked and the process then aborted while unwinding (harnesses keep
                        # stack-backed Vecs that must not be freed): the panic itself is the test failure
                        status = "failed"
                results.append({"test": name, "profile": profile, "status": status, "panic": panic,
                                "tail": o[-1500:] if status in ("error", "not-run") else ""})
    finally:
        open(modfile, "w").write(orig)
    # a native failure confirms the solver's counterexample only if it is *the same* failure: its panic
    # message must contain the description of one of the checks Kani reported as failed
    wanted = [_norm(fc.get("description")) for fc in failed_checks if fc.get("description")]
    # built-in panics (index / slice / arithmetic) are worded differently by Kani and by rustc: they match when the
    # kind of panic (text before the first ':') is the same AND the native panic is at the same source line
    def _site(loc):
        m = re.search(r"(src/[^:\s]+):(\d+)", loc or "")
        return (m.group(1), m.group(2)) if m else None
    wanted_sites = {(_norm((fc.get("description") or "").split(":")[0]), _site(fc.get("location"))) for fc in failed_checks}
    for r in results:
        if r["status"] == "failed" and wanted:
            pm = _norm(r["panic"])
            r["matches_failed_check"] = any(w and (w in pm or pm in w) for w in wanted if len(w) > 8)
            if not r["matches_failed_check"]:
                # assert!/debug_assert! messages with format arguments: Kani keeps the "{name}" placeholder, the native
                # panic has the value; compare the literal text before the first placeholder
                for fc in failed_checks:
                    d = fc.get("description") or ""
                    if "{" in d:
                        lit = _norm(d.split("{")[0])
                        if len(lit) > 10 and lit in pm:
                            r["matches_failed_check"] = True
            if not r["matches_failed_check"]:
                loc, _, msg = (r["panic"] or "").partition(": ")
                msg = msg or r["panic"]
                # r["panic"] = "<file>:<line>:<col>: <message first line>"
                mm = re.match(r"\s*(\S+?):(\d+):\d+:?\s*(.*)", r["panic"] or "")
                if mm:
                    site = _site(mm.group(1) + ":" + mm.group(2))
                    kind = _norm(mm.group(3).split(":")[0])
                    r["matches_failed_check"] = any(k and len(k) > 10 and k == kind and st is not None and st == site for k, st in wanted_sites)
            if not r["matches_failed_check"]:
                r["status"] = "failed-elsewhere"
    if any(r["status"] == "failed" for r in results):
        rep = True
    elif all(r["status"] == "passed" for r in results):
        rep = False
    else:
        rep = None
    return {"reproduced": rep, "tests": [{"name": n, "source": s} for n, s in tests], "runs": results,
            "detail": ""}


# ------------------------------------------------------------------------------------------------
def load_known():
    p = os.path.join(VERIF, "known_findings.json")
    if not os.path.exists(p):
        return []
    return json.load(open(p)).get("findings", [])


def match_known(known, pid, hname, failed_checks):
    """a failure is a known finding iff *every* failed check of the harness is listed for it"""
    hits = []
    for fc in failed_checks:
        k = None
        for f in known:
            if f.get("status") != "open" or f.get("property") != pid:
                continue
            if re.fullmatch(f["harness"], hname) and f["check"] in (fc.get("description") or ""):
                k = f
                break
        if k is None:
            return None
        hits.append(k)
    return hits


PARTIAL_RUN = False  # set when --only restricts the harness set: such a run never overwrites evidence/<id>.json


def write_evidence(pid, tier, seed, prop, results, wall, violations, notes):
    if os.environ.get("VERIF_NO_EVIDENCE"):
        return
    hs = prop["harnesses"]
    meta = {h["name"]: h for h in hs}
    n_queries = 0
    solver_s = 0.0
    samples = []
    nontrivial = 0
    total_checks = 0
    for name, r in results.items():
        st = r.get("stats") or {}
        total_checks += r["checks"]
        if r["verdict"] in ("SUCCESS", "FAILED", "KNOWN-FINDING", "VIOLATION"):
            n_queries += 1
        solver_s += float(st.get("runtime_decision_procedure_s") or 0)
        sat_covers = [d for d, s in r["covers"].items() if s == "Satisfied"]
        if r["verdict"] in ("SUCCESS", "VIOLATION", "KNOWN-FINDING") and r["checks"] > 0:
            nontrivial += 1
        m = meta.get(name, {})
        samples.append({
            "harness": name, "verdict": r["verdict"], "reason": r["reason"],
            "encodes": m.get("funcs"), "bounds": m.get("bounds"), "what": m.get("desc"),
            "cbmc_checks": r["checks"], "covers_satisfied": sat_covers,
            "symex_steps": st.get("size_program_expression"), "vccs": st.get("vccs_generated"),
            "symex_s": st.get("runtime_symex_s"), "solver_s": st.get("runtime_decision_procedure_s"),
            "wall_s": r.get("duration_s"), "replay": r.get("replay"),
        })
    ev = {
        "property_id": pid, "tier": tier, "seed": seed, "level": "model_checking",
        "coverage": {
            "evaluations": max(n_queries, 0),
            "distinct_nontrivial": nontrivial,
            "rule": "one evaluation = one harness decided by CBMC/CaDiCaL over ALL values of its symbolic "
                    "inputs within the stated bounds (not sampled); a harness counts as non-trivial when it "
                    "was decided (SUCCESS with all kani::cover! vacuity witnesses SATISFIED, or a replayed counterexample) "
                    "over a non-zero number of CBMC checks; harness names are distinct",
            "samples": samples,
            "exhaustive": False,
            "engine": "Kani 0.68.0 / CBMC 6.11.0 / CaDiCaL; encoding regenerated from /repo's working tree",
            "functions_encoded": sorted({f for h in hs if h["name"] in results for f in (h.get("funcs") or [])}),
            "bounds": prop.get("bounds"),
            "outside_claim": prop.get("outside"),
            "queries_discharged": n_queries,
            "cbmc_checks_total": total_checks,
            "solver_time_s": round(solver_s, 3),
            "inconclusive": [n for n, r in results.items() if r["verdict"] == "INCONCLUSIVE"],
            "known_findings_hit": [n for n, r in results.items() if r["verdict"] == "KNOWN-FINDING"],
            "notes": notes,
        },
        "assumptions": list(prop.get("assumptions", [])) + [SUBST_NOTE],
        "wall_s": round(wall, 2),
        "violations": violations,
    }
    # the level's own keys, all measured on this run: states = symbolic-execution steps CBMC took through the
    # compiled code, transitions = verification conditions it generated from them, traces = solver
    # counterexamples re-executed against the native build
    def _num(x):
        try:
            return int(float(x))
        except (TypeError, ValueError):
            return 0
    n_states = sum(_num(x["symex_steps"]) for x in samples)
    n_trans = sum(_num(x["vccs"]) for x in samples)
    if n_states > 0 and n_trans > 0:
        ev["coverage"]["states"] = n_states
        ev["coverage"]["transitions"] = n_trans
        ev["coverage"]["traces_validated_against_impl"] = sum(1 for x in samples if x.get("replay"))
    edir = os.path.join(VERIF, "evidence") if not PARTIAL_RUN else os.path.join(VERIF, "out", "evidence-partial")
    os.makedirs(edir, exist_ok=True)
    with open(os.path.join(edir, pid + ".json"), "w") as f:
        json.dump(ev, f, indent=1)


def run_property(pid, tier, only, jobs, keep, seed):
    prop = registry.PROPS[pid]
    t0 = time.time()
    hs = [h for h in prop["harnesses"] if (tier == "thorough" and h.get("tier") != "probe") or h.get("tier", "quick") == "quick"]
    if os.environ.get("VERIF_PROBE"):
        # unregistered probe: VERIF_PROBE=<harness module>:<fn> runs one harness that is not part of any claim
        mod, fn = os.environ["VERIF_PROBE"].split(":")
        hs = [registry.H(fn, mod, "probe", int(os.environ.get("VERIF_TIMEOUT", 900)), "probe", [], "probe")]
        prop = dict(prop, harnesses=prop["harnesses"] + hs)
        if not any(m == mod for _, m in prop["inject"]):
            prop["inject"] = list(prop["inject"]) + [(os.environ.get("VERIF_PROBE_HOST", "src/lib.rs"), mod)]
        only = only or fn
    if only:
        global PARTIAL_RUN
        PARTIAL_RUN = True
        hs = [h for h in hs if re.search(only, h["name"])]
    if not hs:
        raise SystemExit("no harness selected")
    random.Random(seed).shuffle(hs)
    # longest-known first (stable w.r.t. the seeded shuffle): keeps the wall time of a -j run near max(single)
    hs.sort(key=lambda h: -getattr(registry, "COST", {}).get(h["name"], 0))
    slot = Slot()
    known = load_known()
    notes = []
    exit_code = 0
    violations = 0
    results = {}
    printed_known = set()
    try:
        try:
            make_scratch(slot, prop)
        except BuildProblem as e:
            log("INCONCLUSIVE property=%s build: %s" % (pid, e))
            write_evidence(pid, tier, seed, prop, {}, time.time() - t0, 0, [str(e)])
            return 2
        logdir = os.path.join(OUT, "logs", "%s-slot%d" % (pid, slot.k) if os.environ.get("VERIF_LOGDIR_PER_SLOT") else pid)
        shutil.rmtree(logdir, ignore_errors=True)
        # harnesses that need more memory than the property's default run in their own cargo-kani invocation
        # (ulimit is per invocation) after the others; the build is shared
        groups = {}
        for h in hs:
            groups.setdefault(h.get("mem") or prop.get("mem_gb", 12), []).append(h)
        results = {}
        data = None
        lpath = None
        for gi, (mem, ghs) in enumerate(sorted(groups.items())):
            j = max(1, min(jobs, len(ghs), int(56 // mem)))
            gdata, glpath, rc, dt = run_kani(slot, prop, ghs, j, logdir if gi == 0 else os.path.join(logdir, "mem%d" % mem), mem_gb=mem)
            results.update(classify(gdata, ghs, prop))
            if gdata is None or data is None:
                data, lpath = gdata, glpath
            if gdata is None:
                break
        if data is None:
            txt = open(lpath, errors="replace").read()
            errs = re.findall(r"^error.*$", txt, re.M)[:5]
            notes.append("cargo kani produced no result file; first errors: %s" % errs)
            log("INCONCLUSIVE property=%s cargo-kani failed to build or run (see %s): %s" % (pid, lpath, errs))
        for h in hs:
            r = results[h["name"]]
            if r["verdict"] == "FAILED":
                kn = match_known(known, pid, h["name"], r["failed_checks"])
                if kn is not None:
                    r["verdict"] = "KNOWN-FINDING"
                    for k in kn:
                        if k["id"] not in printed_known:
                            printed_known.add(k["id"])
                            log("KNOWN-FINDING: property=%s %s: %s" % (pid, k["id"], k["what"]))
                    continue
                # replay before reporting; failures that are only built-in checks of Kani's library models
                # (free/memcpy preconditions, unsupported-construct markers) have no concrete playback
                user = [fc for fc in r["failed_checks"] if "kani_lib.c" not in (fc.get("location") or "")
                        and "library/kani" not in (fc.get("location") or "") and "builtin-library" not in (fc.get("location") or "")]
                unsupported = [fc for fc in user if "not currently supported by Kani" in (fc.get("description") or "")
                               or "unsupported_construct" in (fc.get("category") or "")]
                if not user:
                    rp = {"reproduced": None, "detail": "only checks inside Kani's allocator/intrinsic models failed", "tests": []}
                elif unsupported:
                    rp = {"reproduced": None, "detail": "a construct Kani cannot encode is reachable (tool limitation, not a verdict)", "tests": []}
                elif h.get("replay", "playback") == "playback":
                    rp = concrete_playback(slot, prop, h, os.path.join(logdir, "replay-" + h["name"]), r["failed_checks"])
                else:
                    rp = {"reproduced": None, "detail": "harness has no native replay (model-only)", "tests": []}
                os.makedirs(os.path.join(OUT, "replays"), exist_ok=True)
                rpath = os.path.join(OUT, "replays", "%s-%s.json" % (pid, h["name"]))
                json.dump({"property": pid, "harness": h["name"], "module": h["module"],
                           "failed_checks": r["failed_checks"], "replay": rp,
                           "how": "python3 /verif/run.py --replay " + rpath}, open(rpath, "w"), indent=1)
                r["replay"] = {"reproduced": rp["reproduced"], "path": rpath}
                if rp["reproduced"]:
                    r["verdict"] = "VIOLATION"
                    violations += 1
                    log("VIOLATION property=%s replay=%s" % (pid, rpath))
                    log("  harness %s: %s" % (h["name"], r["reason"]))
                else:
                    r["verdict"] = "INCONCLUSIVE"
                    r["reason"] = "solver counterexample did not reproduce natively (%s): %s" % (
                        rp.get("detail") or rp.get("reproduced"), r["reason"])
        for h in hs:
            r = results[h["name"]]
            st = r.get("stats") or {}
            log("%-14s %-40s %6.1fs checks=%-5d %s" % (r["verdict"], h["name"], r.get("duration_s") or 0,
                                                     r["checks"], r["reason"][:160]))
        if violations:
            exit_code = 1
        elif any(r["verdict"] == "INCONCLUSIVE" for r in results.values()):
            exit_code = 2
            for n, r in results.items():
                if r["verdict"] == "INCONCLUSIVE":
                    log("INCONCLUSIVE property=%s harness=%s %s" % (pid, n, r["reason"][:300]))
    finally:
        write_evidence(pid, tier, seed, prop, results, time.time() - t0, violations, notes)
        slot.release(keep)
    log("property=%s tier=%s harnesses=%d exit=%d wall=%.0fs" % (pid, tier, len(hs), exit_code, time.time() - t0))
    return exit_code


def do_replay(path):
    """re-run the native playback tests recorded in a replay file against the current /repo"""
    d = json.load(open(path))
    pid = d["property"]
    prop = registry.PROPS[pid]
    h = [x for x in prop["harnesses"] if x["name"] == d["harness"]][0]
    slot = Slot()
    try:
        make_scratch(slot, prop)
        rp = concrete_playback(slot, prop, h, os.path.join(OUT, "logs", pid, "replay-cli"))
        print(json.dumps({k: v for k, v in rp.items() if k != "tests"}, indent=1))
        return 1 if rp["reproduced"] else 0
    finally:
        slot.release()


def do_setup():
    """prime the shared Kani target directory (dependencies) and the playback target"""
    slot = Slot()
    try:
        prop = registry.PROPS["C14"]
        make_scratch(slot, prop)
        cmd = ["cargo", "kani"] + KANI_FLAGS + ["--only-codegen"]
        rc = subprocess.call(cmd, cwd=slot.scratch, env=env_for(slot.target))
        return 0 if rc == 0 else 1
    finally:
        slot.release()


def main():
    ap = argparse.ArgumentParser()
    ap.add_argument("property", nargs="?")
    ap.add_argument("--tier", default=os.environ.get("VERIF_TIER", "quick"), choices=["quick", "thorough"])
    ap.add_argument("--only")
    ap.add_argument("--jobs", type=int, default=int(os.environ.get("VERIF_JOBS", "8")))
    ap.add_argument("--keep", action="store_true")
    ap.add_argument("--replay")
    ap.add_argument("--setup", action="store_true")
    a = ap.parse_args()
    if a.setup:
        sys.exit(do_setup())
    if a.replay:
        sys.exit(do_replay(a.replay))
    seed = int(os.environ.get("VERIF_SEED", "0") or 0)
    sys.exit(run_property(a.property, a.tier, a.only, a.jobs, a.keep, seed))


if __name__ == "__main__":
    main()
